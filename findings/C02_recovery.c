/* native demonstration of the known finding C02 (MissingBuffer recovery never succeeds):
 * gcc -I/repo/mptcore C02_recovery.c -L/repo/_build/mptcore -lmptcore -Wl,-rpath,/repo/_build/mptcore; ./a.out -> exit 1 */
#include <stdio.h>
#include <string.h>
#include <sys/uio.h>
#include "queue.h"
#include "message.h"
#include "convert.h"
int main(void)
{
	MPT_STRUCT(decode_queue) q = MPT_DECODE_QUEUE_INIT;
	static const uint8_t frame[] = { 0xe1, 0x01, 0x02, 0x05, 0x00 };   /* one data byte + zero pair, then a block */
	int r = 0, i;
	q._dec = mpt_decode_cobs_zpe;
	mpt_queue_prepare(&q.data, 64);
	mpt_qpush(&q.data, sizeof(frame), frame);
	for (i = 0; i < 3; i++) { r = mpt_queue_recv(&q); printf("recv=%d qlen=%zu curr=%zu pos=%zu len=%zu\n", r, q.data.len, q._state.curr, q._state.data.pos, q._state.data.len); if (r == 1) break; }
	return r == 1 ? 0 : 1;
}
