/* native demonstration of the known finding C08 (8-bit element length): gcc -I/repo/mptcore C08_long_name.c -L/repo/_build/mptcore -lmptcore -Wl,-rpath,/repo/_build/mptcore; ./a.out 300 prints "node name length 44 (expected 300)" */
#include <stdio.h>
#include <string.h>
#include <stdlib.h>
#include "node.h"
#include "config.h"
#include "parse.h"
static char text[1024]; static size_t pos;
static int gc(void *arg) { (void) arg; return text[pos] ? text[pos++] : -2; }
int main(int argc, char **argv)
{
	MPT_STRUCT(node) root = MPT_NODE_INIT, *n;
	MPT_STRUCT(parser_context) p = MPT_PARSER_INIT;
	int r, nlen = argc > 1 ? atoi(argv[1]) : 300;
	memset(text, 'a', nlen); strcpy(text + nlen, " {\n x = 1\n}\n");
	p.src.getc = gc; p.src.arg = 0;
	r = mpt_parse_node(&root, &p, 0);
	printf("ret=%d line=%zu\n", r, p.src.line);
	for (n = root.children; n; n = n->next) { const char *id = mpt_node_ident(n); printf("node name length %zu (expected %d)\n", id ? strlen(id) : 0, nlen); }
	return 0;
}
