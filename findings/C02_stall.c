/* native demonstration of the known finding C02 (reader stall): gcc -I/repo/mptcore C02_stall.c -L/repo/_build/mptcore -lmptcore -Wl,-rpath,/repo/_build/mptcore; ./a.out 1 -> exit 1 (stall), ./a.out 2 -> exit 0 */
#include <stdio.h>
#include <string.h>
#include <stdlib.h>
#include <sys/uio.h>
#include "queue.h"
#include "message.h"
#include "convert.h"
int main(int argc, char **argv)
{
	MPT_STRUCT(decode_queue) q = MPT_DECODE_QUEUE_INIT;
	static const uint8_t frame[] = { 0x04, 'a', 'b', 'c', 0x00 };
	int cut = argc > 1 ? atoi(argv[1]) : 1, r, i;
	q._dec = mpt_decode_cobs;
	mpt_queue_prepare(&q.data, 64);
	mpt_qpush(&q.data, cut, frame);
	r = mpt_queue_recv(&q); printf("after %d byte(s): recv=%d qlen=%zu curr=%zu pos=%zu len=%zu\n", cut, r, q.data.len, q._state.curr, q._state.data.pos, q._state.data.len);
	mpt_qpush(&q.data, sizeof(frame) - cut, frame + cut);
	for (i = 0; i < 3; i++) { r = mpt_queue_recv(&q); printf("complete frame queued: recv=%d qlen=%zu curr=%zu pos=%zu len=%zu msg=%zd\n", r, q.data.len, q._state.curr, q._state.data.pos, q._state.data.len, q._state.data.msg); if (r) break; }
	return r == 1 ? 0 : 1;
}
