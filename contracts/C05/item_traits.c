/* C05 unit item.traits: a configuration item as element of a typed buffer (mptcore/config/config_item_traits.c).
 * Destruction tears down everything the element owns exactly once: the sub-element array (one reference on its
 * buffer), the value (one reference) and the identifier storage; a destroyed element owns nothing, so a second
 * destruction releases nothing.  Copy construction takes exactly one reference on the value.
 * Buffer and value are abstract objects with counting v-tables (A-stub). */
#include "verif.h"
#include <sys/uio.h>
#include "array.h"
#include "meta.h"
#include "types.h"
#include "config.h"
#include "mptcore/config/config_item_traits.c"

struct h_buf { MPT_STRUCT(buffer) b; uintptr_t refs; int addrefs, unrefs; };
static uint32_t h_flags(const MPT_STRUCT(buffer) *b) { const struct h_buf *h = (const void *) b; return h->refs > 1 ? MPT_ENUM(BufferShared) : 0; }
static void h_unref(MPT_STRUCT(buffer) *b) { struct h_buf *h = (void *) b; h->refs--; h->unrefs++; }
static uintptr_t h_addref(MPT_STRUCT(buffer) *b) { struct h_buf *h = (void *) b; if (h->refs == UINTPTR_MAX) return 0; h->addrefs++; return ++h->refs; }
static MPT_STRUCT(buffer) *h_detach(MPT_STRUCT(buffer) *b, size_t n) { (void) n; return b; }
static const MPT_INTERFACE_VPTR(buffer) h_vptr = { h_flags, h_unref, h_addref, h_detach };

static struct { MPT_INTERFACE(metatype) mt; uintptr_t refs; int addrefs, unrefs; } M;
static int h_mconv(MPT_INTERFACE(convertable) *c, MPT_TYPE(type) t, void *d) { (void) c; (void) t; (void) d; return MPT_ERROR(BadType); }
static void h_munref(MPT_INTERFACE(metatype) *m) { (void) m; M.refs--; M.unrefs++; }
static uintptr_t h_maddref(MPT_INTERFACE(metatype) *m) { (void) m; if (M.refs == UINTPTR_MAX) return 0; M.addrefs++; return ++M.refs; }
static MPT_INTERFACE(metatype) *h_mclone(const MPT_INTERFACE(metatype) *m) { (void) m; return 0; }
static const MPT_INTERFACE_VPTR(metatype) h_mvptr = { { h_mconv }, h_munref, h_maddref, h_mclone };

void harness(void)
{
	IN(uintptr_t, in_bref); IN(uintptr_t, in_mref); IN(int, in_elems); IN(int, in_value); IN(int, in_copy);
	struct h_buf hb = { { &h_vptr, 0, 16, 0 }, 0, 0, 0 };
	const MPT_STRUCT(type_traits) *tr = mpt_config_item_traits();
	MPT_STRUCT(config_item) el, from; int ret;
	V_REQ(in_bref >= 1 && in_mref >= 1 && in_mref < UINTPTR_MAX);
	hb.refs = in_bref; M.mt._vptr = &h_mvptr; M.refs = in_mref; M.addrefs = M.unrefs = 0;
	V_CHECK("traits: element is one config item", tr->size == sizeof(MPT_STRUCT(config_item)) && tr->init && tr->fini);
	ret = tr->init(&from, 0);
	V_CHECK("init: default element owns nothing", ret >= 0 && from.elements._buf == 0 && from.value == 0 && M.addrefs == 0);
	if (in_value) { from.value = &M.mt; }
	ret = tr->init(&el, in_copy ? &from : 0);
	V_CHECK("init: copy takes exactly one reference on the value", IMP(ret >= 0 && in_copy && in_value, el.value == &M.mt && M.refs == in_mref + 1 && M.addrefs == 1));
	V_CHECK("init: without a source value nothing is referenced", IMP(!in_copy || !in_value, el.value == 0 && M.addrefs == 0));
	V_CHECK("init: never releases", M.unrefs == 0 && hb.unrefs == 0);
	if (ret >= 0) {
		/* the element comes to own a sub-element array (as mpt_config_item_reserve / array operations give it) */
		if (in_elems) { el.elements._buf = &hb.b; }
		tr->fini(&el);
		V_CHECK("fini: the sub-element array is released exactly once and cleared", el.elements._buf == 0 && hb.unrefs == (in_elems ? 1 : 0) && hb.refs == in_bref - (in_elems ? 1 : 0));
		V_CHECK("fini: the value is released exactly once and cleared", el.value == 0 && M.unrefs == (in_copy && in_value ? 1 : 0) && M.refs == in_mref);
		tr->fini(&el);
		V_CHECK("fini: a destroyed element releases nothing", hb.unrefs == (in_elems ? 1 : 0) && M.refs == in_mref);
	}
	V_COVER("element with sub-elements and value destroyed", ret >= 0 && in_elems && in_copy && in_value);
	V_CANARY();
}
