/* C05 units: typed buffers whose elements have construction/destruction behaviour.  The element
 * tracker of common/bufstub.h records for every slot of every buffer whether it holds a live element;
 * the stubs assert "no construction over a live element", "no destruction of a dead slot or of memory
 * that is not an element"; after every operation exactly the elements below `used` are alive
 * (h_elements_consistent): nothing leaked, nothing destroyed twice, also when a constructor fails. */
#include "../common/bufstub.h"

void harness(void)
{
	IN(size_t, in_size); IN(size_t, in_used); IN(uintptr_t, in_refs); IN(int, in_flags); IN(int, in_typed);
	IN(int, in_init_fails); IN(int, in_alloc_fails); IN(size_t, in_k);
	uint8_t in_content[BCAP], in_src[BCAP]; const uint8_t *src_ = in_src; V_FILL(in_content); V_FILL(in_src);
	MPT_STRUCT(buffer) *b0 = &h_b0.b; size_t i, oused; uint8_t ok_ = 0; int r_ins = 0; size_t ins_pos = 0, ins_len = 0;
	V_REQ(in_size <= BCAP && in_used <= in_size && in_refs >= 1 && in_refs <= 2 && (in_flags & ~3) == 0);
	V_REQ(IMP(in_typed, in_used % ESZ == 0));
	H_SETUP(in_size, in_used, in_refs, in_flags, in_typed);
	for (i = 0; i < BCAP; i++) h_b0.data[i] = in_content[i];
	h_init_fails = in_init_fails != 0; h_alloc_fails = in_alloc_fails != 0;
#ifdef UNIT_ASLICE
	{ IN(int, in_fail_at); V_REQ(in_fail_at >= 0 && in_fail_at <= 3); h_init_fail_at = in_fail_at; }   /* or only the n-th construction fails */
#endif
	oused = in_used;
	if (in_k < BCAP) ok_ = in_content[in_k];
	V_CHECK("setup: representation invariant holds before the call", h_elements_consistent());

#if defined(UNIT_BSET)
	{
		IN(size_t, in_pos); IN(size_t, in_len); IN(int, in_has_src); IN(int, in_src_typed); long r; size_t end;
		V_REQ(in_pos <= BCAP && in_len <= BCAP);
		if (!in_has_src) src_ = 0;
		r = mpt_buffer_set(b0, in_src_typed ? &h_traits : 0, in_pos, src_, in_len);
		end = in_pos + in_len;
		V_CHECK("set: beyond the capacity refused, nothing changes", IMP(end > in_size, r < 0 && b0->_used == oused && IMP(in_k < BCAP, h_b0.data[in_k] == ok_)));
		V_CHECK("set: misaligned or wrongly typed access refused, nothing changes", IMP((in_typed != 0) != (in_src_typed != 0) || (in_typed && (in_pos % ESZ || in_len % ESZ)), r < 0 && b0->_used == oused));
		if (!in_typed && !in_src_typed && end <= in_size) {
			V_CHECK("set(raw): accepted", r >= 0);
			V_CHECK("set(raw): length is max(old, end)", b0->_used == (end > oused ? end : oused));
			V_CHECK("set(raw): range holds the source (zeros without one)", IMP(in_k >= in_pos && in_k < end, h_b0.data[in_k] == (in_has_src ? in_src[in_k - in_pos] : 0)));
			V_CHECK("set(raw): bytes outside the range kept", IMP(in_k < oused && (in_k < in_pos || in_k >= end), h_b0.data[in_k] == ok_));
		}
		if (in_typed && in_src_typed && r >= 0 && !h_init_fails) {
			V_CHECK("set(typed): length is max(old, end)", b0->_used == (end > oused ? end : oused));
			V_CHECK("set(typed): elements of the range are copies of the source (default without one)", IMP(in_k >= in_pos && in_k < end, h_b0.data[in_k] == (in_has_src ? in_src[in_k - in_pos] : 0)));
			V_CHECK("set(typed): every element of the range was constructed by copy, none byte-copied", h_copies == (in_has_src ? (int) (in_len / ESZ) : 0));
		}
		V_COVER("typed overwrite in the middle", in_typed && r > 0 && in_pos < oused && end < oused);
		V_COVER("typed extension with gap", in_typed && r >= 0 && in_pos > oused);
		V_COVER("constructor failed", in_typed && in_src_typed && h_init_fails && in_len > 0 && end <= in_size && in_pos % ESZ == 0 && in_len % ESZ == 0);
	}
#elif defined(UNIT_BCUT)
	{
		IN(size_t, in_off); IN(size_t, in_len); IN(size_t, in_e); ssize_t r; size_t cut, q_;
		V_REQ(in_off <= BCAP && in_len <= BCAP);
		/* watch one element (ghost index in_e) by identity: its first byte differs from every other element's */
		V_REQ(in_e < NSLOT);
		for (q_ = 0; q_ < NSLOT; q_++) V_REQ(q_ == in_e || h_b0.data[q_ * ESZ] != h_b0.data[in_e * ESZ]);
		h_watch_on = 1; h_watch_val = h_b0.data[in_e * ESZ]; h_watch_fins = 0;
		r = mpt_buffer_cut(b0, in_off, in_len);
		cut = in_len ? in_len : (in_off <= oused ? oused - in_off : 0);
		V_CHECK("cut: range outside the data refused, nothing changes", IMP(in_off > oused || in_len > oused - in_off, r < 0 && b0->_used == oused && h_finis == 0 && IMP(in_k < BCAP, h_b0.data[in_k] == ok_)));
		V_CHECK("cut: misaligned range on a typed buffer refused, nothing changes", IMP(in_typed && (in_off % ESZ || in_len % ESZ), r < 0 && b0->_used == oused && h_finis == 0));
		if (r >= 0) {
			V_CHECK("cut: length exact", b0->_used == oused - cut && (size_t) r == b0->_used);
			V_CHECK("cut: content before kept, content behind moved down", IMP(in_k < in_off, h_b0.data[in_k] == ok_) && IMP(in_k >= in_off + cut && in_k < oused, h_b0.data[in_k - cut] == ok_));
			V_CHECK("cut: exactly the removed elements were finalised", h_finis == (in_typed ? (int) (cut / ESZ) : 0) && h_inits == 0);
			V_CHECK("cut: an element is finalised exactly when it lies in the removed range (identity, not only the count)", IMP(in_typed && (in_e + 1) * ESZ <= oused, h_watch_fins == ((in_e * ESZ >= in_off && in_e * ESZ < in_off + cut) ? 1 : 0)));
		}
		V_COVER("typed cut keeping elements behind", in_typed && r >= 0 && in_len > 0 && in_off + in_len < oused);
		V_COVER("truncate", r >= 0 && in_len == 0 && in_off < oused);
	}
#elif defined(UNIT_BINSERT)
	{
		IN(size_t, in_pos); IN(size_t, in_len); uint8_t *r; size_t base_, total;
		V_REQ(in_pos <= BCAP && in_len <= BCAP);
		r = mpt_buffer_insert(b0, in_pos, in_len);
		r_ins = r != 0; ins_pos = in_pos; ins_len = in_len;
		base_ = in_pos > oused ? in_pos : oused; total = base_ + in_len;
		V_CHECK("insert: beyond the capacity / immutable / misaligned refused, nothing changes", IMP(total > in_size || (in_flags & MPT_ENUM(BufferImmutable)) || (in_typed && (in_pos % ESZ || in_len % ESZ)), (r == 0 || total == 0) && b0->_used == oused && h_inits == 0 && h_finis == 0));
		if (r && total) {
			V_CHECK("insert: length exact", b0->_used == total && r == h_b0.data + in_pos);
			V_CHECK("insert: content before kept, content behind moved up", IMP(in_k < oused && in_k < in_pos, h_b0.data[in_k] == ok_) && IMP(in_k >= in_pos && in_k < oused, h_b0.data[in_k + in_len] == ok_));
			V_CHECK("insert: gap behind the old end is zero / default constructed", IMP(in_k >= oused && in_k < in_pos, h_b0.data[in_k] == 0));
			V_CHECK("insert: nothing destroyed", h_finis == 0);
		}
		V_COVER("typed insert in the middle", in_typed && r && in_len > 0 && in_pos < oused);
		V_COVER("typed insert behind the end", in_typed && r && in_pos > oused);
	}
#elif defined(UNIT_ASET) || defined(UNIT_ASLICE) || defined(UNIT_ARESERVE)
	{
		/* array level: the handle may have to detach from a shared buffer first */
		MPT_STRUCT(array) h = { &h_b0.b }; MPT_STRUCT(buffer) *nb; void *r;
		IN(size_t, in_a); IN(size_t, in_b); IN(int, in_has_src);
		V_REQ(in_a <= BCAP && in_b <= BCAP);
		if (!in_has_src) src_ = 0;
# if defined(UNIT_ASET)
		V_REQ(in_typed);
		r = mpt_array_set(&h, &h_traits, in_b, src_, (long) (in_a / ESZ));
		nb = h._buf;
		if (r) {
			size_t pos = (in_a / ESZ) * ESZ, end = pos + in_b;
			V_CHECK("array_set: length is max(old, end), private buffer", IMP(!h_init_fails, nb->_used == (end > oused ? end : oused)) && h_refs[H_IDX(nb)] == 1);
			V_CHECK("array_set: range holds copies of the source", IMP(in_k >= pos && in_k < end && !h_init_fails, H_BYTE(nb, in_k) == (in_has_src ? in_src[in_k - pos] : 0)));
			V_CHECK("array_set: elements outside the range kept", IMP(in_k < oused && (in_k < pos || in_k >= end), H_BYTE(nb, in_k) == ok_));
		}
		V_COVER("set on a shared typed buffer", r && in_refs > 1 && in_b > 0);
# elif defined(UNIT_ASLICE)
		r = mpt_array_slice(&h, in_a, in_b);
		nb = h._buf;
		if (r) {
			size_t total = in_a + in_b;
			V_CHECK("array_slice: covers the range, private buffer", nb->_used == (total > oused ? total : oused) && h_refs[H_IDX(nb)] == 1);
			V_CHECK("array_slice: existing elements kept", IMP(in_k < oused, H_BYTE(nb, in_k) == ok_));
			V_CHECK("array_slice: new elements default constructed", IMP(in_k >= oused && in_k < total, H_BYTE(nb, in_k) == 0));
		}
		V_COVER("typed slice extends a shared buffer", r && in_typed && in_refs > 1 && in_a + in_b > oused);
# else
		{
			IN(int, in_new_typed);
			r = mpt_array_reserve(&h, in_a, in_new_typed ? &h_traits : 0);
			nb = h._buf;
			if (r) {
				V_CHECK("reserve: capacity, type and privacy as asked", nb->_size >= in_a && (nb->_content_traits == &h_traits) == (in_new_typed != 0) && h_refs[H_IDX(nb)] == 1);
				V_CHECK("reserve: a change of the element type drops the old content (finalised), same type keeps what fits", IMP((in_typed != 0) != (in_new_typed != 0), nb->_used == 0));
			}
			V_COVER("type change finalises the old elements", r && in_typed && !in_new_typed && oused > 0 && in_refs == 1);
			V_COVER("typed content copied from a shared buffer", r && in_typed && in_new_typed && in_refs > 1 && oused > 0 && nb->_used > 0);
		}
# endif
		if (in_refs > 1) {
			V_CHECK("independence: the other holder's buffer, length and elements are untouched", h_alive[0] && h_b0.b._used == oused && IMP(in_k < oused, h_b0.data[in_k] == ok_) && h_refs[0] == (h._buf == &h_b0.b ? in_refs : in_refs - 1));
		}
		b0 = h._buf ? h._buf : b0;
	}
#endif
#if defined(UNIT_BINSERT)
	/* the inserted range itself is handed to the caller unconstructed (the caller constructs it): the live
	 * elements are the old ones (relocated bitwise) plus the default constructed gap, i.e. used minus the inserted count */
	{
		size_t s, n = 0;
		for (s = 0; s < NSLOT; s++) if (h_live[0][s]) n++;
		V_CHECK("elements: old elements and constructed gap alive, nothing else (none leaked, none destroyed)", IMP(in_typed, n + (r_ins ? ins_len / ESZ : 0) == b0->_used / ESZ));
	}
#else
#if defined(UNIT_BCUT) || defined(UNIT_ASLICE) || defined(UNIT_ARESERVE) || defined(UNIT_ASET)
	V_CHECK("elements: as many live elements as `used` holds afterwards (none leaked, none destroyed twice; elements are relocated bitwise)", h_elements_count_consistent());
#else
	V_CHECK("elements: exactly the elements below `used` are alive afterwards (none leaked, none destroyed twice)", h_elements_consistent());
#endif
#endif
	V_CHECK("elements: used stays within capacity and aligned", b0->_used <= b0->_size && IMP(b0->_content_traits, b0->_used % ESZ == 0));
	V_CANARY();
}
