/* C05/C04/C15 unit alloc.detach: the REAL buffer implementation (mptcore/array/buffer_alloc.c, included as a
 * translation unit) against the buffer-interface contract that the abstract buffer of common/bufstub.h
 * stands for: detach() of a shared typed buffer COPY-CONSTRUCTS every element into a new buffer and leaves
 * the shared one alone (one holder less); detach() of a unique buffer that must grow MOVES the content
 * (no construction, no destruction, elements beyond the new size finalised); raw buffers are copied
 * byte-wise; in place when unique, mutable and large enough.  Request sizes are concrete per unit
 * (the allocator's rounding arithmetic with symbolic sizes exhausts the solver, measured in C15). */
#include "verif.h"
#include <sys/uio.h>
#include <stdlib.h>
#include <string.h>
/* typed storage for the allocator: CBMC treats malloc(<computed size>) as an untyped byte array, and a header with
 * function pointers inside a byte array exhausts the solver (measured).  The allocator's malloc/free are redirected
 * to a pool of two typed blocks of the page size it asks for; double free / use after free / leaks are tracked here. */
struct h_hdr { uintptr_t ref; size_t psize; int flags; uint8_t pad[8 * sizeof(void *) - sizeof(uintptr_t) - sizeof(size_t) - sizeof(int) - 4 * sizeof(void *)]; void *vptr; const void *traits; size_t size, used; };
struct h_blk { struct h_hdr hd; uint8_t data[384 - sizeof(struct h_hdr)]; };
static struct h_blk h_blk0, h_blk1; static int h_used0, h_used1, h_frees, h_bad_free;
static void *h_malloc(size_t n) { __CPROVER_assert(n <= sizeof(struct h_blk), "harness: allocation fits a pool block"); if (!h_used0) { h_used0 = 1; return &h_blk0; } if (!h_used1) { h_used1 = 1; return &h_blk1; } return 0; }
static void h_free(void *p) { if (!p) return; h_frees++; if (p == (void *) &h_blk0 && h_used0) h_used0 = 0; else if (p == (void *) &h_blk1 && h_used1) h_used1 = 0; else h_bad_free = 1; }
#define malloc h_malloc
#define free   h_free
#include "mptcore/array/buffer_alloc.c"
#undef malloc
#undef free
#define BLK_OF(b_)      ((const void *) (b_) == (const void *) &h_blk0.hd.vptr ? &h_blk0 : &h_blk1)
#define DATA_BYTE(b_, k_) (BLK_OF(b_)->data[k_])

#define ESZ 8
#ifndef NEL
# define NEL 3
#endif
static int g_inits, g_copies, g_finis, g_init_fails;
static uint8_t g_live_old[NEL + 1], g_live_new[NEL + 1];
static const void *g_old;      /* the buffer detach is called on */
static int h_init(void *p, const void *src)
{
	size_t slot = ((size_t) __CPROVER_POINTER_OFFSET(p) - sizeof(struct h_hdr)) / ESZ;
	__CPROVER_assert(slot <= NEL, "element init: inside the data area");
	if (g_init_fails) return MPT_ERROR(BadOperation);
	if (__CPROVER_same_object(p, g_old)) { __CPROVER_assert(!g_live_old[slot], "element init: not over a live element"); g_live_old[slot] = 1; }
	else { __CPROVER_assert(!g_live_new[slot], "element init: not over a live element"); g_live_new[slot] = 1; }
	g_inits++; if (src) { g_copies++; memcpy(p, src, ESZ); } else memset(p, 0, ESZ);
	return 0;
}
static void h_fini(void *p)
{
	size_t slot = ((size_t) __CPROVER_POINTER_OFFSET(p) - sizeof(struct h_hdr)) / ESZ;
	__CPROVER_assert(slot <= NEL, "element fini: inside the data area");
	if (__CPROVER_same_object(p, g_old)) { __CPROVER_assert(g_live_old[slot], "element fini: element is alive"); g_live_old[slot] = 0; }
	else { __CPROVER_assert(g_live_new[slot], "element fini: element is alive"); g_live_new[slot] = 0; }
	g_finis++;
}
static const MPT_STRUCT(type_traits) h_traits = { h_init, h_fini, ESZ };

void harness(void)
{
	IN(size_t, in_used); IN(uintptr_t, in_refs); IN(int, in_flags); IN(int, in_typed); IN(int, in_fail); IN(size_t, in_k);
	uint8_t in_content[NEL * ESZ]; V_FILL(in_content); V_OBJ(h_blk0); V_OBJ(h_blk1);
	MPT_STRUCT(buffer) *b, *n; MPT_STRUCT(bufferData) *bd; size_t i, nel; uint8_t ok_ = 0;
	V_REQ(in_refs >= 1 && in_refs <= 2 && (in_flags & ~3) == 0 && in_used <= NEL * ESZ && IMP(in_typed, in_used % ESZ == 0));
	b = _mpt_buffer_alloc(NEL * ESZ, in_flags);
	V_REQ(b != 0);
	bd = MPT_baseaddr(bufferData, b, buf); g_old = bd;
	V_CHECK("harness: typed block layout matches the allocator's header", sizeof(struct h_hdr) == sizeof(MPT_STRUCT(bufferData)) && (void *) b == (void *) &h_blk0.hd.vptr);
	for (i = 0; i < NEL * ESZ; i++) h_blk0.data[i] = in_content[i];
	b->_used = in_used; bd->_ref._val = in_refs; nel = in_used / ESZ;
	if (in_typed) { b->_content_traits = &h_traits; for (i = 0; i < NEL; i++) g_live_old[i] = i < nel; }
	g_init_fails = in_fail != 0; g_inits = g_copies = g_finis = 0;
	if (in_k < NEL * ESZ) ok_ = in_content[in_k];

	n = b->_vptr->detach(b, DETACH_LEN);

	if (n == b) {
		V_CHECK("detach: in place only when unique, mutable and large enough", in_refs == 1 && !(in_flags & MPT_ENUM(BufferImmutable)) && DETACH_LEN <= b->_size);
		V_CHECK("detach(in place): nothing constructed or destroyed, content and holders unchanged", g_inits == 0 && g_finis == 0 && b->_used == in_used && bd->_ref._val == in_refs);
	} else if (n) {
		MPT_STRUCT(bufferData) *nd = MPT_baseaddr(bufferData, n, buf); size_t keep = in_used < DETACH_LEN ? in_used : DETACH_LEN;
		V_CHECK("detach: the new buffer is private, mutable, large enough, same element type", nd->_ref._val == 1 && !(n->_vptr->get_flags(n) & (MPT_ENUM(BufferImmutable) | MPT_ENUM(BufferShared))) && n->_size >= DETACH_LEN && n->_content_traits == b->_content_traits);
		if (in_refs > 1) {
			V_CHECK("detach(shared): the shared buffer loses exactly this holder and keeps its content", bd->_ref._val == in_refs - 1 && b->_used == in_used && IMP(in_k < in_used, DATA_BYTE(b, in_k) == ok_));
			V_CHECK("detach(shared): content copied completely (constructors that do not fail)", IMP(!in_fail || !in_typed, n->_used == in_used) && IMP(in_k < n->_used, DATA_BYTE(n, in_k) == ok_));
			V_CHECK("detach(shared, typed): every element copy-constructed, none byte-copied, none destroyed", IMP(in_typed && !in_fail, g_copies == (int) nel && g_inits == (int) nel && g_finis == 0));
			for (i = 0; i < NEL; i++) V_CHECK("detach(shared, typed): elements alive in both buffers afterwards", IMP(in_typed, g_live_old[i] == (i < nel) && g_live_new[i] == (i < n->_used / ESZ)));
		} else {
			V_CHECK("detach(move): content that fits is kept", n->_used == keep && IMP(in_k < keep, DATA_BYTE(n, in_k) == ok_));
			V_CHECK("detach(move, typed): nothing constructed; exactly the elements that do not fit are finalised", IMP(in_typed, g_inits == 0 && g_finis == (int) ((in_used - keep) / ESZ)));
		}
		V_CHECK("detach: the old buffer is released exactly when it was moved", h_bad_free == 0 && h_frees == (in_refs > 1 ? 0 : 1) && h_used1 && h_used0 == (in_refs > 1));
	} else {
		V_CHECK("detach: refusal leaves the buffer, its holders and its elements untouched", bd->_ref._val == in_refs && b->_used == in_used && g_finis == 0);
		V_CHECK("detach: refused only for a reason (no-copy content, failing constructor, element size)", (in_refs > 1 && (in_flags & MPT_ENUM(BufferNoCopy)) && in_used) || (in_typed && g_init_fails && in_refs > 1 && nel > 0) || (in_refs > 1 && in_used > DETACH_LEN));
		V_CHECK("detach: a refused detach releases what it allocated and nothing else", h_bad_free == 0 && h_used0 && !h_used1);
	}
	if (n == b) V_CHECK("detach(in place): nothing allocated or released", h_frees == 0 && h_used0 && !h_used1);
#ifndef COVER_NOFIT
	V_COVER("shared typed buffer copied", n && n != b && in_refs > 1 && in_typed && nel >= 2);
#endif
	V_COVER("unique buffer moved", n && n != b && in_refs == 1);
	V_COVER("in place or moved", n == b || (n && in_refs == 1));
	V_COVER("refused", !n);
#ifdef COVER_NOFIT
	V_COVER("shared content that does not fit the requested size is refused", !n && in_refs > 1 && !(in_flags & MPT_ENUM(BufferNoCopy)) && !g_init_fails);
#endif
	V_CANARY();
}
