/* C08 unit path.add_del: the path buffer operations that keep the section events well nested
 * (mptcore/config/path_add.c, path_del.c), separator-delimited format, path held in an array buffer.
 * mpt_path_add accepts the ADD pending bytes behind the path as a new last element exactly when none of them is
 * the separator (an element containing the separator would be split by every later reader and mpt_path_del would
 * take off only part of it); on refusal the path is unchanged; on success the path grows by the element and its
 * terminator, earlier bytes are untouched, and mpt_path_del is the inverse: it reports the element's length and
 * restores the previous path length.  mpt_array_slice is a stand-in of its C04 contract (address of a range inside
 * the used part). */
#include "verif.h"
#include <sys/uio.h>
#include "array.h"
#include "config.h"
#ifndef CAP
# define CAP 8
#endif
struct h_buf { MPT_STRUCT(buffer) b; char data[CAP]; };
void *mpt_array_slice(MPT_STRUCT(array) *arr, size_t off, size_t len)
{
	MPT_STRUCT(buffer) *b = arr->_buf;
	if (!b || off > b->_used || len > b->_used - off) return 0;
	return ((char *) (b + 1)) + off;
}
void harness(void)
{
	char in_data[CAP]; IN(size_t, in_used); IN(size_t, in_len); IN(int, in_add); IN(size_t, in_k); IN(uint8_t, in_first);
	struct h_buf hb = { { 0, 0, CAP, 0 }, { 0 } };
	MPT_STRUCT(path) path = MPT_PATH_INIT;
	size_t i; int r, has_sep = 0;
	V_FILL(in_data);
	V_REQ(in_used <= CAP && in_len <= in_used && in_add >= 1 && (size_t) in_add <= in_used - in_len && in_k < CAP);
	/* post data behind the new element: room for the terminator (otherwise the buffer is grown, not the subject here) */
#ifdef BINARY
	V_REQ(in_used - in_len - (size_t) in_add >= 2);
#else
	V_REQ(in_used - in_len - (size_t) in_add >= 1);
#endif
	/* a well formed path: empty, or ends with the assign character behind its last element */
	V_REQ(in_len == 0 || in_len >= 2);
	for (i = 0; i < CAP; i++) hb.data[i] = in_data[i];
	V_REQ(in_len == 0 || hb.data[in_len - 1] == 0);
	hb.b._used = in_used;
	path.base = hb.data; path.len = in_len; path.first = in_len ? in_first : 0; path.flags = MPT_PATHFLAG(HasArray);
#ifdef BINARY
	path.flags |= MPT_PATHFLAG(SepBinary);
#endif
	for (i = 0; i < CAP; i++) if (i >= in_len && i < in_len + (size_t) in_add && in_data[i] == path.sep) has_sep = 1;

#ifdef BINARY
	/* length-linked format: any byte may be part of an element; every element is accepted and taken off again whole */
	r = mpt_path_add(&path, in_add);
	V_CHECK("binary add: accepted", r == 0);
	V_CHECK("binary add: the path grows by the element and its two link bytes, the element bytes are untouched", path.len == in_len + (size_t) in_add + 2 && path.base == hb.data && IMP(in_k >= in_len && in_k < in_len + (size_t) in_add, hb.data[in_k] == in_data[in_k]) && IMP(in_len >= 2 && in_k < in_len - 1, hb.data[in_k] == in_data[in_k]));
	r = mpt_path_del(&path);
	V_CHECK("binary del: inverse of add - reports the element length and restores the previous path length", r == in_add && path.len == in_len);
	V_COVER("accepted onto a non-empty path", in_len > 0);
#else
	r = mpt_path_add(&path, in_add);
	V_CHECK("add: an element containing the separator is refused", IMP(has_sep, r < 0));
	V_CHECK("add: refusal leaves the path unchanged", IMP(r < 0, path.len == in_len && path.base == hb.data && hb.b._used == in_used && hb.data[in_k] == in_data[in_k]));
	V_CHECK("add: an element without separator is accepted", IMP(!has_sep, r == 0));
	if (r >= 0) {
		V_CHECK("add: the path grows by the element and its terminator", path.len == in_len + (size_t) in_add + 1 && path.base == hb.data && hb.data[in_len + in_add] == path.assign);
		V_CHECK("add: the previous terminator becomes the separator, all other bytes are untouched", IMP(in_len, hb.data[in_len - 1] == path.sep) && IMP(in_k != in_len - 1 && in_k != in_len + (size_t) in_add, hb.data[in_k] == in_data[in_k]));
		V_CHECK("add: the first element length is recorded for an empty path", IMP(in_len == 0, path.first == (uint8_t) in_add));
		r = mpt_path_del(&path);
		V_CHECK("del: inverse of add - reports the element length and restores the previous path length", r == in_add && path.len == in_len);
		V_CHECK("del: an emptied path forgets its first element", IMP(in_len == 0, path.first == 0));
	}
	V_COVER("accepted onto a non-empty path", r >= 0 && in_len > 0);
	V_COVER("refused", r < 0);
#endif
	V_CANARY();
}
