/* C08 units over the parser's building blocks.  Ghost input: h_getc delivers the bytes of a symbolic input of g_n
 * bytes once each and reports the end (-2, as mpt_getchar_file does) from then on; it counts its calls, so that
 * "each input character is read at most once" is the obligation calls <= characters consumed + 1. */
#include "verif.h"
#include <ctype.h>
#include "../C07/ctype_model.h"
#include "config.h"
#include "types.h"
#include "parse.h"
#ifndef NIN
# define NIN 6
#endif
static uint8_t g_in[NIN]; static size_t g_n, g_pos, g_calls;
static int h_getc(void *arg) { (void) arg; g_calls++; if (g_pos < g_n) return g_in[g_pos++]; return -2; }

#if defined(UNIT_GETCHAR)
static int g_adds, g_added, g_add_fails;
int mpt_path_addchar(MPT_STRUCT(path) *p, int c) { (void) p; g_adds++; g_added = c; return g_add_fails ? MPT_ERROR(BadOperation) : 0; }
void harness(void)
{
	IN(uint8_t, in_c); IN(int, in_end); IN(int, in_has_path); IN(int, in_add_fails); IN(size_t, in_line);
	MPT_STRUCT(parser_input) src; MPT_STRUCT(path) path = MPT_PATH_INIT; int r;
	V_REQ(in_line < 1000000);
	g_in[0] = in_c; g_n = in_end ? 0 : 1; g_pos = 0; g_calls = 0; g_add_fails = in_add_fails != 0;
	src.getc = h_getc; src.arg = 0; src.line = in_line;
	r = mpt_parse_getchar(&src, in_has_path ? &path : 0);
	V_CHECK("getchar: exactly one read per call", g_calls == 1);
	V_CHECK("getchar: end of input / NUL is handed through and nothing is saved", IMP(in_end || in_c == 0, r <= 0 && g_adds == 0));
	V_CHECK("getchar: a character is saved to the path exactly once, then returned", IMP(!in_end && in_c, g_adds == (in_has_path ? 1 : 0) && IMP(in_has_path, g_added == in_c) && r == (in_has_path && g_add_fails ? -1 : in_c)));
	V_CHECK("getchar: line counter starts at 1 and counts newlines", src.line == (in_line ? in_line : 1) + (!in_end && in_c == '\n' ? 1 : 0));
	V_COVER("newline saved", r == '\n' && g_adds == 1);
	V_CANARY();
}
#elif defined(UNIT_ENDLINE)
void harness(void)
{
	uint8_t in_bytes[NIN]; IN(size_t, in_n); IN(size_t, in_k);
	MPT_STRUCT(parser_input) src; int r; size_t i, nl = NIN;
	V_FILL(in_bytes);
	V_REQ(in_n <= NIN);
	for (i = 0; i < NIN; i++) { g_in[i] = in_bytes[i]; if (nl == NIN && i < in_n && in_bytes[i] == '\n') nl = i; }
	g_n = in_n; g_pos = g_calls = 0;
	src.getc = h_getc; src.arg = 0; src.line = 1;
	r = mpt_parse_endline(&src);
	V_CHECK("endline: every read consumed a new character (at most one read beyond the end)", g_calls <= in_n + 1 && g_calls == g_pos + (g_pos == in_n && r < 0 ? 1 : 0));
	V_CHECK("endline: stops directly behind the first newline and reports the skipped length", IMP(nl < NIN, r == (int) nl && g_pos == nl + 1 && src.line == 2));
	V_CHECK("endline: without a newline the end of input is reported, the line count stays", IMP(nl == NIN, r < 0 && g_pos == in_n && src.line == 1));
	V_COVER("newline in the middle", r == 2 && in_n > 4);
	V_CANARY();
}
#elif defined(UNIT_NEXTVIS)
void harness(void)
{
	uint8_t in_bytes[NIN]; IN(size_t, in_n); IN(uint8_t, in_com); IN(int, in_has_com);
	MPT_STRUCT(parser_input) src; int r; size_t i; char com[1];
	V_FILL(in_bytes);
	H_CTYPE_INIT();
	V_REQ(in_n <= NIN);
	for (i = 0; i < NIN; i++) g_in[i] = in_bytes[i];
	g_n = in_n; g_pos = g_calls = 0; com[0] = (char) in_com;
	src.getc = h_getc; src.arg = 0; src.line = 1;
	r = mpt_parse_nextvis(&src, com, in_has_com ? 1 : 0);
	V_CHECK("nextvis: every read consumed a new character (at most one read beyond the end)", g_calls <= in_n + 1 && g_calls >= g_pos && g_calls <= g_pos + 1);
	V_CHECK("nextvis: a returned character is the one consumed last, visible and not a comment start", IMP(r > 0, g_pos >= 1 && r == g_in[g_pos - 1] && !isspace(r) && !(in_has_com && r == in_com)));
	V_CHECK("nextvis: otherwise the input is used up or a NUL was met", IMP(r <= 0, g_pos == in_n || (g_pos >= 1 && g_in[g_pos - 1] == 0)));
	V_CHECK("nextvis: line counter = 1 + newlines consumed", src.line >= 1 && src.line <= 1 + g_pos);
	V_COVER("comment skipped, then a visible character", r > 0 && in_has_com && g_pos >= 4 && g_in[0] == in_com);
	V_CANARY();
}
#elif defined(UNIT_NCHECK)
static int allowed_(int c, size_t i, int take)
{
	if (isspace(c)) return (take & MPT_NAMEFLAG(Space)) != 0;
	if (isdigit(c)) return (take & (i ? MPT_NAMEFLAG(NumCont) : MPT_NAMEFLAG(NumStart))) != 0;
	if (!isprint(c)) return (take & MPT_NAMEFLAG(Binary)) != 0;
	if (!isalnum(c)) return (take & MPT_NAMEFLAG(Special)) != 0;
	return 1;
}
void harness(void)
{
	char in_name[NIN]; IN(size_t, in_len); IN(int, in_take); IN(size_t, in_k); IN(int, in_null);
	int r; size_t i; int all = 1; const char *np_ = in_name;
	V_FILL(in_name);
	H_CTYPE_INIT();
	V_REQ(in_len <= NIN);
	for (i = 0; i < NIN; i++) if (i < in_len && !allowed_(in_name[i], i, in_take)) all = 0;
	if (in_null) np_ = 0;
	r = mpt_parse_ncheck(np_, in_len, in_take);
	V_CHECK("ncheck: empty names pass exactly when allowed", IMP(in_len == 0, (r == 0) == ((in_take & MPT_NAMEFLAG(Empty)) != 0)));
	V_CHECK("ncheck: a missing name of non-zero length is refused", IMP(in_len && in_null, r < 0));
	V_CHECK("ncheck: accepted exactly when every character's class is allowed at its position", IMP(in_len && !in_null, (r == 0) == (all != 0)));
	V_CHECK("ncheck: verdict is 0 or an error code", r <= 0);
	V_COVER("digit refused at the start only", r < 0 && in_len >= 2 && (in_take & MPT_NAMEFLAG(NumCont)) && !(in_take & MPT_NAMEFLAG(NumStart)) && isdigit(in_name[0]));
	V_COVER("accepted with a high byte", r == 0 && in_len >= 1 && in_name[0] < 0);
	V_CANARY();
}
#elif defined(UNIT_CONFIG)
/* mpt_parse_config: the element parser `next`, the handler `save` and the path operations are stand-ins with a ghost
 * section depth; the events are arbitrary.  Decided: one handler call per event, in order, with (previous, current)
 * operation codes; a section end without an open section ends the parse with an error before anything further is
 * emitted (well nested event sequence); a failing handler ends the parse; the path is released exactly once. */
#ifndef NEV
# define NEV 3
#endif
static int g_ev[NEV + 1], g_cur[NEV + 1], g_nev, g_i, g_depth, g_saves, g_save_fail_at, g_finis, g_bad, g_min_depth;
static int g_seen_last[NEV + 1], g_seen_curr[NEV + 1];
static int h_next(void *a, MPT_STRUCT(parser_context) *c, MPT_STRUCT(path) *p)
{
	int ev; (void) a; (void) p;
	if (g_finis) g_bad = 1;
	if (g_i >= g_nev) return g_ev[NEV] <= 0 ? g_ev[NEV] : 0;                 /* end of input or a parse error */
	ev = g_ev[g_i]; c->curr = (uint8_t) g_cur[g_i]; g_i++;
	if ((ev & 0x3) == MPT_PARSEFLAG(Section) || (ev & 0x3) == MPT_PARSEFLAG(Option)) g_depth++;   /* a name element was added to the path */
	return ev;
}
static int h_save(void *ctx, const MPT_STRUCT(path) *p, const MPT_STRUCT(value) *v, int last, int curr)
{
	(void) ctx; (void) p;
	if (g_finis) g_bad = 1;
	if (g_saves < NEV) { g_seen_last[g_saves] = last; g_seen_curr[g_saves] = curr; }
	if (((curr & MPT_PARSEFLAG(Data)) != 0) != (v != 0)) g_bad = 1;            /* a value exactly for data events */
	g_saves++;
	return g_saves == g_save_fail_at ? -1 : 0;
}
int mpt_path_del(MPT_STRUCT(path) *p) { (void) p; if (g_finis) g_bad = 1; if (!g_depth) return MPT_ERROR(MissingData); g_depth--; if (g_depth < g_min_depth) g_min_depth = g_depth; return 0; }
int mpt_path_invalidate(MPT_STRUCT(path) *p) { (void) p; if (g_finis) g_bad = 1; return 0; }
void mpt_path_fini(MPT_STRUCT(path) *p) { (void) p; g_finis++; }
void harness(void)
{
	int in_ev[NEV + 1], in_cur[NEV + 1]; IN(int, in_nev); IN(int, in_fail_at); IN(uint8_t, in_prev); IN(int, in_k);
	MPT_STRUCT(parser_context) pc = MPT_PARSER_INIT; int r, i, bad_end = -1, depth = 0;
	V_FILL(in_ev); V_FILL(in_cur);
	V_REQ(in_nev >= 0 && in_nev <= NEV && in_k >= 0 && in_k < NEV);
	for (i = 0; i < NEV; i++) { V_REQ(in_ev[i] > 0 && in_ev[i] <= 0xf); g_ev[i] = in_ev[i]; g_cur[i] = in_cur[i] & 0xf; }
	g_ev[NEV] = in_ev[NEV]; g_nev = in_nev; g_save_fail_at = in_fail_at; pc.prev = in_prev;
	/* reference: first event whose section end has no open section */
	for (i = 0; i < NEV; i++) if (i < in_nev && bad_end < 0) {
		if ((in_ev[i] & 0x3) == MPT_PARSEFLAG(Section) || (in_ev[i] & 0x3) == MPT_PARSEFLAG(Option)) depth++;
		if (in_ev[i] & MPT_PARSEFLAG(SectEnd)) { if (!depth) bad_end = i; else depth--; }
	}
	r = mpt_parse_config(h_next, 0, &pc, h_save, 0);
	V_CHECK("config: nothing is used after the path was released; values accompany exactly the data events", !g_bad);
	V_CHECK("config: the path is released exactly once on every exit", g_finis == 1);
	V_CHECK("config: one handler call per event, in order", g_saves <= in_nev && g_saves == g_i && IMP(in_k < g_saves, g_seen_curr[in_k] == in_ev[in_k]));
	V_CHECK("config: the handler sees the previous element's operation code", IMP(in_k < g_saves, g_seen_last[in_k] == (in_k ? (in_cur[in_k - 1] & 0xf) : in_prev)));
	V_CHECK("config: a failing handler ends the parse with an error", IMP(in_fail_at >= 1 && g_saves == in_fail_at, r < 0));
	V_CHECK("config: a section end without open section ends the parse with an error, nothing is emitted after it", IMP(bad_end >= 0 && (in_fail_at < 1 || in_fail_at > bad_end + 1), r < 0 && g_saves == bad_end + 1));
	V_CHECK("config: the section depth never goes below zero", g_min_depth >= 0 && g_depth >= 0);
	V_CHECK("config: otherwise every event is emitted and the parser's verdict returned", IMP(bad_end < 0 && (in_fail_at < 1 || in_fail_at > in_nev), g_saves == in_nev && r == (in_ev[NEV] <= 0 ? in_ev[NEV] : 0)));
	V_COVER("three events, well nested", r == 0 && g_saves == 3 && bad_end < 0 && g_depth == 0 && (in_ev[0] & 0x3) == MPT_PARSEFLAG(Section));
	V_COVER("stray section end", bad_end == 1 && r < 0);
	V_CANARY();
}
#endif

#if defined(UNIT_PATHLAST)
/* mpt_path_last on a plain (non-array) path of up to LMAX bytes: the last element's length is kept in the 8-bit
 * field path.first ("element lengths kept in path.first (8 bit)"): decided here is that the recorded length is the
 * real one.  Split: elements up to 255 bytes must be recorded exactly; longer ones must be refused or recorded
 * without loss (known finding: they are silently reduced modulo 256, see known_findings.json). */
#ifndef LMAX
# define LMAX 300
#endif
void harness(void)
{
	static char text[LMAX + 1]; IN(size_t, in_last); const size_t in_len = LMAX;
	MPT_STRUCT(path) path = MPT_PATH_INIT; int r; size_t i;
	/* "aaa...a.<last element of in_last bytes>": LMAX bytes, one separator at a symbolic position */
	V_REQ(in_last < in_len);
	for (i = 0; i < LMAX; i++) text[i] = 'a';
	text[in_len - 1 - in_last] = '.';
	path.base = text; path.off = 0; path.len = in_len + 1; path.sep = '.'; path.assign = 0;     /* len counts the trailing assign/separator position */
	r = mpt_path_last(&path);
	V_CHECK("path_last: reports the length of the last element", r == (int) in_last);
	V_CHECK("path_last: an element of up to 255 bytes is recorded exactly", IMP(in_last <= 255, path.first == in_last && path.len == in_last + 1 && path.off == in_len - in_last));
	V_CHECK("path_last: a longer element is refused or recorded without loss (8-bit length field)", IMP(in_last > 255, r < 0 || (path.first == 0 && path.len == in_last + 1)));
	V_COVER("element of exactly 255 bytes", r == 255);
	V_COVER("element longer than 255 bytes", r > 255);
	V_CANARY();
}
#endif

#if defined(UNIT_FORMATPRE)
/* mpt_parse_format_pre (the '*' family element parser) with its callees by stand-in: the character functions
 * mpt_parse_nextvis/_getchar/_endline are the real bodies on the ghost input; the path operations, the name check and
 * the option/data parsers are stand-ins that record the order of calls and check what they are handed.
 * Decided: result is a documented element code or an error; the current-operation field agrees with it; a name is moved
 * into the path (mpt_path_add) with exactly the number of valid post bytes counted so far, after it passed the name
 * check; the data parser starts with an empty valid count; each character is read once. */
static int g_addchars, g_adds, g_add_len, g_nchecks, g_ncheck_len, g_ncheck_ret, g_datas, g_data_valid_at_entry, g_data_ret, g_opts, g_opt_ret, g_pvalid, g_invalidates, g_order_bad;
static char h_pbuf[NIN + 4];
int mpt_path_addchar(MPT_STRUCT(path) *p, int c) { (void) c; g_addchars++; if (!p->base) p->base = h_pbuf; return 1; }
int mpt_path_valid(MPT_STRUCT(path) *p) { (void) p; return g_pvalid = g_addchars; }     /* post bytes so far */
int mpt_path_add(MPT_STRUCT(path) *p, int len) { (void) p; g_adds++; g_add_len = len; if (g_nchecks != g_adds) g_order_bad = 1; return 0; }
int mpt_path_invalidate(MPT_STRUCT(path) *p) { (void) p; g_invalidates++; return 0; }
int mpt_parse_ncheck(const char *name, size_t len, int take) { (void) name; (void) take; g_nchecks++; g_ncheck_len = (int) len; return g_ncheck_ret; }
int mpt_parse_data(const MPT_STRUCT(parser_format) *f, MPT_STRUCT(parser_context) *pc, MPT_STRUCT(path) *p) { (void) f; (void) p; g_datas++; g_data_valid_at_entry = pc->valid; if (g_adds != 1) g_order_bad = 1; return g_data_ret; }
int mpt_parse_option(const MPT_STRUCT(parser_format) *f, MPT_STRUCT(parser_context) *pc, MPT_STRUCT(path) *p) { (void) f; (void) pc; (void) p; g_opts++; return g_opt_ret; }
void harness(void)
{
	uint8_t in_bytes[NIN]; IN(size_t, in_n); IN(int, in_ncheck_ret); IN(int, in_data_ret); IN(int, in_opt_ret);
	MPT_STRUCT(parser_format) fmt = MPT_PARSER_FORMAT_INIT; MPT_STRUCT(parser_context) pc = MPT_PARSER_INIT; MPT_STRUCT(path) path = MPT_PATH_INIT;
	int r; size_t i;
	V_FILL(in_bytes);
	H_CTYPE_INIT();
	V_REQ(in_n <= NIN && in_ncheck_ret <= 0 && in_data_ret >= -32 && in_data_ret <= 0xffff && in_opt_ret >= -32 && in_opt_ret <= 7);
	for (i = 0; i < NIN; i++) g_in[i] = in_bytes[i];
	g_n = in_n; g_pos = g_calls = 0; g_ncheck_ret = in_ncheck_ret; g_data_ret = in_data_ret; g_opt_ret = in_opt_ret;
	pc.src.getc = h_getc; pc.src.arg = 0;
	r = mpt_parse_format_pre(&fmt, &pc, &path);
	V_CHECK("element: each character is read once (at most two reads beyond the end of input)", g_calls <= in_n + 2 && g_pos <= in_n);
	V_CHECK("element: result is an element code or an error", r < 0 || r == 0 || r == MPT_PARSEFLAG(Section) || r == MPT_PARSEFLAG(SectEnd) || r == MPT_PARSEFLAG(Option) || r == (MPT_PARSEFLAG(Option) | MPT_PARSEFLAG(Data)) || r == MPT_PARSEFLAG(Data) || (g_opts && r == in_opt_ret));
	V_CHECK("element: a name is moved into the path only after it passed the name check, with the valid length that was checked", !g_order_bad && IMP(g_adds, g_nchecks == g_adds && g_add_len == g_ncheck_len && in_ncheck_ret == 0) && IMP(g_nchecks && in_ncheck_ret < 0, r < 0 && g_adds == 0));
	V_CHECK("element: the data part of an option starts with an empty valid count and decides between Option and Option|Data", IMP(g_datas, g_datas == 1 && g_data_valid_at_entry == 0 && g_invalidates >= 1 && (in_data_ret < 0 ? r == in_data_ret : (in_data_ret == 0 ? r == MPT_PARSEFLAG(Option) : r == (MPT_PARSEFLAG(Option) | MPT_PARSEFLAG(Data))))));
	V_CHECK("element: section start / end reported with the matching current operation", IMP(!g_opts && r == MPT_PARSEFLAG(Section), g_adds == 1 && (pc.curr & MPT_PARSEFLAG(Section))) && IMP(!g_opts && r == MPT_PARSEFLAG(SectEnd), pc.curr == MPT_PARSEFLAG(SectEnd) && g_adds == 0));
	V_CHECK("element: end of input before any element is a clean end", IMP(in_n == 0, r == 0));
	V_COVER("option with data", g_datas == 1 && r == (MPT_PARSEFLAG(Option) | MPT_PARSEFLAG(Data)));
	V_COVER("section opened", r == MPT_PARSEFLAG(Section) && g_addchars >= 2);
	V_COVER("section end", r == MPT_PARSEFLAG(SectEnd));
	V_CANARY();
}
#endif
