/* C08 unit getchar.file: the file descriptor character source (mptcore/parse/getchar_file.c) against the
 * character-source contract the parser relies on (A-getc): one read of one byte per call; a delivered byte is
 * returned as its value 0..255 (every byte value is a character, never mistaken for an end code), end of file
 * is -2, a read error -1.  read() is a stand-in delivering an arbitrary byte / end / error. */
#include "verif.h"
#include <unistd.h>
#include "parse.h"
static int g_reads, g_mode; static uint8_t g_byte; static int g_fd; static size_t g_count;
ssize_t read(int fd, void *buf, size_t count)
{
	g_reads++; g_fd = fd; g_count = count;
	if (g_mode == 1 && count >= 1) { *(uint8_t *) buf = g_byte; return 1; }
	return g_mode ? -1 : 0;
}
void harness(void)
{
	IN(uint8_t, in_byte); IN(int, in_mode); IN(int, in_fd); int r;
	V_REQ(in_mode >= 0 && in_mode <= 2 && in_fd >= 0);
	g_byte = in_byte; g_mode = in_mode; g_reads = 0;
	r = mpt_getchar_file((void *) (uintptr_t) in_fd);
	V_CHECK("source: exactly one read of one byte from the given descriptor", g_reads == 1 && g_count == 1 && g_fd == in_fd);
	V_CHECK("source: a delivered byte is returned as its value 0..255", IMP(in_mode == 1, r == (int) in_byte && r >= 0));
	V_CHECK("source: end of file is -2, a read error -1", IMP(in_mode == 0, r == -2) && IMP(in_mode == 2, r == -1));
	V_COVER("high byte delivered", in_mode == 1 && in_byte >= 0x80);
	V_CANARY();
}
