/* C08 unit element.pre: ONE call of the element parser mpt_parse_format_pre ('*' family: sections opened and closed
 * by characters) on the real bodies - mpt_parse_option, mpt_parse_data, mpt_parse_nextvis/_endline/_getchar/_ncheck,
 * the path buffer operations mpt_path_addchar/_delchar/_add/_del/_invalidate/_valid/_fini and the array functions
 * below them - over the abstract buffer pool of common/bufstub.h (any conforming buffer implementation), fed from the
 * ghost input source (NIN symbolic bytes, each delivered once, reads counted).  Bounded stand-in for "the parser is
 * total": terminates (unwinding assertions), no invalid memory access, each character read once, result is one of the
 * documented codes, the path stays well formed, and releasing the path leaves no buffer behind. */
#include "../common/bufstub.h"
#include <ctype.h>
#include "../C07/ctype_model.h"
#include "config.h"
#include "parse.h"
#include <stdarg.h>
int mpt_log(MPT_INTERFACE(logger) *l, const char *f, int t, const char *fmt, ...) { (void) l; (void) f; (void) t; (void) fmt; return 0; }
#ifndef NIN
# define NIN 4
#endif
static uint8_t g_in[NIN]; static size_t g_n, g_pos, g_calls;
static int h_getc(void *arg) { (void) arg; g_calls++; if (g_pos < g_n) return g_in[g_pos++]; return -2; }

void harness(void)
{
	uint8_t in_bytes[NIN]; IN(size_t, in_n); IN(uint8_t, in_sect); IN(uint8_t, in_opt);
	MPT_STRUCT(parser_format) fmt = MPT_PARSER_FORMAT_INIT; MPT_STRUCT(parser_context) pc = MPT_PARSER_INIT; MPT_STRUCT(path) path = MPT_PATH_INIT;
	int r; size_t i;
	V_FILL(in_bytes);
	H_CTYPE_INIT();
	V_REQ(in_n <= NIN);
	for (i = 0; i < NIN; i++) g_in[i] = in_bytes[i];
	g_n = in_n; g_pos = g_calls = 0;
	h_alloc_fails = 0; h_init_fails = 0;
	pc.src.getc = h_getc; pc.src.arg = 0; pc.name.sect = in_sect; pc.name.opt = in_opt;
	r = mpt_parse_format_pre(&fmt, &pc, &path);
	V_CHECK("element: each character is read once (at most two reads beyond the end of input)", g_calls <= in_n + 2 && g_pos <= in_n);
	V_CHECK("element: result is an element code or an error", r < 0 || r == 0 || r == MPT_PARSEFLAG(Section) || r == MPT_PARSEFLAG(SectEnd) || r == MPT_PARSEFLAG(Option) || r == (MPT_PARSEFLAG(Option) | MPT_PARSEFLAG(Data)) || r == MPT_PARSEFLAG(Data));
	if (path.flags & MPT_PATHFLAG(HasArray)) {
		const MPT_STRUCT(buffer) *b = ((const MPT_STRUCT(buffer) *) path.base) - 1;
		V_CHECK("element: the path lies inside its buffer, the valid post data behind it", path.off + path.len <= b->_used && b->_used <= b->_size && pc.valid <= b->_used - (path.off + path.len));
	} else {
		V_CHECK("element: a path without buffer is empty", path.len == 0 && pc.valid == 0);
	}
	V_CHECK("element: end of input before any element is a clean end", IMP(in_n == 0, r == 0));
	mpt_path_fini(&path);
	V_CHECK("element: releasing the path leaves no buffer behind", !h_alive[0] && !h_alive[1] && !h_alive[2]);
	V_COVER("section opened", r == MPT_PARSEFLAG(Section));
	V_COVER("option with data", r == (MPT_PARSEFLAG(Option) | MPT_PARSEFLAG(Data)));
	V_COVER("refused", r < 0 && in_n == NIN);
	V_CANARY();
}
