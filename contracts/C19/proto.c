/* C19 units proto.<generator>: the iterator v-table of a value generator as a state machine over
 * (pos, elem): value() is non-NULL exactly while pos < elem and is the generator's formula at pos,
 * advance() moves to pos+1 and reports "no further element" exactly when pos+1 == elem, reading or
 * advancing past the end is reported without fault and without changing the state, reset() returns to
 * pos 0, a clone has equal abstract state in its own storage.  Loop-free, state fully symbolic.
 * The documented walk "value, advance, stop when advance reports no further element" is additionally run
 * for every elem <= 4 (bounded) and must visit exactly elem elements in order. */
#include "verif.h"
#include <errno.h>
#include <sys/uio.h>
#include GEN_H
#include GEN_FILE
#ifdef GEN_HELPERS
GEN_HELPERS
#endif

static uint64_t bits(double d) { uint64_t u; memcpy(&u, &d, sizeof(u)); return u; }
int mpt_iterator_consume(MPT_INTERFACE(iterator) *it, MPT_TYPE(type) t, void *d) { (void) it; (void) t; (void) d; return MPT_ERROR(BadArgument); }
int mpt_range_set(MPT_STRUCT(range) *r, const MPT_STRUCT(value) *v) { (void) r; (void) v; return MPT_ERROR(BadArgument); }

void harness(void)
{
	IN(uint32_t, in_elem); IN(uint32_t, in_pos); IN(double, in_a); IN(double, in_b); IN(double, in_c);
	MPT_INTERFACE(metatype) *mt, *cl; MPT_INTERFACE(iterator) *it = 0, *cit = 0; GEN_TYPE *d, *cd;
	const MPT_STRUCT(value) *v; int r; double want;
	V_REQ(in_elem >= 2);
	mt = GEN_MAKE(in_elem, in_a, in_b, in_c);
	V_REQ(mt != 0);
	d = MPT_baseaddr(GEN_TYPE_NAME, mt, _mt);
	V_CHECK("create: starts at the first element with the requested count", GEN_POS(d) == 0 && GEN_ELEM(d) == in_elem);
	V_CHECK("create: offers the iterator interface", mt->_vptr->convertable.convert((MPT_INTERFACE(convertable) *) mt, MPT_ENUM(TypeIteratorPtr), &it) >= 0 && it == &d->_it);
	/* any reachable position, incl. just past the end */
	V_REQ(in_pos <= in_elem);
	GEN_SETPOS(d, in_pos);
	want = GEN_EXPECT(d);

	v = it->_vptr->value(it);
	V_CHECK("value: an element exactly while pos < elem", (v != 0) == (in_pos < in_elem));
	V_CHECK("value: the generator's formula at pos, as a double", IMP(v, v->_type == 'd' && v->_addr != 0 && bits(*(const double *) v->_addr) == bits(want)));
	V_CHECK("value: reading does not move", GEN_POS(d) == in_pos && GEN_ELEM(d) == in_elem);

	/* clone before advancing: equal abstract state, own storage */
	cl = mt->_vptr->clone(mt);
	if (cl) {
		const MPT_STRUCT(value) *cv;
		cd = MPT_baseaddr(GEN_TYPE_NAME, cl, _mt);
		V_CHECK("clone: own storage, same position and count", cl != mt && GEN_POS(cd) == in_pos && GEN_ELEM(cd) == in_elem);
		cl->_vptr->convertable.convert((MPT_INTERFACE(convertable) *) cl, MPT_ENUM(TypeIteratorPtr), &cit);
		cv = cit->_vptr->value(cit);
		/* equal parameters and position => the identical sequence; the clone's own value is its formula over its own
		 * (equal) fields - comparing two separately computed floating point products would be a multiplier equivalence query */
		V_CHECK("clone: same parameters", GEN_SAME_PARAMS(d, cd));
		V_CHECK("clone: replays its formula at the same position", (cv != 0) == (v != 0) && IMP(cv, bits(*(const double *) cv->_addr) == bits(GEN_EXPECT(cd))));
		V_CHECK("clone: advancing the clone leaves the original", (cit->_vptr->advance(cit), GEN_POS(d) == in_pos));
		cl->_vptr->unref(cl);
	}

	{ double nd_gc; GEN_BEFORE_ADVANCE(d); (void) nd_gc; }
	r = it->_vptr->advance(it);
	V_CHECK("advance: past the end is an error and changes nothing", IMP(in_pos >= in_elem, r < 0 && GEN_POS(d) == in_pos && GEN_ELEM(d) == in_elem));
	V_CHECK("advance: moves to the next position", IMP(in_pos < in_elem, GEN_POS(d) == in_pos + 1 && GEN_ELEM(d) == in_elem));
	V_CHECK("advance: reports 'no further element' exactly at the last one", IMP(in_pos < in_elem, (r == 0) == (in_pos == in_elem - 1) && r >= 0));
	V_CHECK("advance: the next value is the formula at pos+1", IMP(in_pos < in_elem - 1, (v = it->_vptr->value(it)) != 0 && bits(*(const double *) v->_addr) == bits(GEN_EXPECT_NEXT(d, want))));

	r = it->_vptr->reset(it);
	V_CHECK("reset: back to the first element, reports the count", GEN_POS(d) == 0 && GEN_ELEM(d) == in_elem && (uint32_t) r == in_elem);
	V_CHECK("reset: the first value again", (v = it->_vptr->value(it)) != 0 && bits(*(const double *) v->_addr) == bits(GEN_EXPECT(d)));

	/* the documented walk for short sequences */
	if (in_elem <= 4) {
		uint32_t n = 0; int more = 1;
		while (more && n < 6) {
			v = it->_vptr->value(it);
			V_CHECK("walk: a value at every visited position", v != 0);
			n++;
			more = it->_vptr->advance(it) > 0;
		}
		V_CHECK("walk: visits exactly the elements the source denotes", n == in_elem);
		V_CHECK("walk: afterwards reading is reported as the end", it->_vptr->value(it) == 0 && it->_vptr->advance(it) < 0);
	}
	V_COVER("last element", in_pos == in_elem - 1);
	V_COVER("past the end", in_pos == in_elem);
	V_COVER("middle", in_pos > 0 && in_pos < in_elem - 1);
	mt->_vptr->unref(mt);
	V_CANARY();
}
