#define GEN_FILE "mptplot/values/iterator_boundary.c"
#define GEN_TYPE MPT_STRUCT(iteratorBoundary)
#define GEN_TYPE_NAME iteratorBoundary
#define GEN_MAKE(n_, a_, b_, c_)  mpt_iterator_boundary((n_), (a_), (b_), (c_))
#define GEN_POS(d_)  ((d_)->pos)
#define GEN_ELEM(d_) ((d_)->elem)
#define GEN_SETPOS(d_, p_) ((d_)->pos = (p_))
/* left boundary first, right boundary last, the inner value in between (from the constructor arguments) */
#define GEN_EXPECT(d_)  ((d_)->pos == 0 ? in_a : ((d_)->pos + 1 < in_elem ? in_b : in_c))
#define GEN_EXPECT_NEXT(d_, cur_) GEN_EXPECT(d_)
#define GEN_SAME_PARAMS(a_, b_) (bits((a_)->left) == bits((b_)->left) && bits((a_)->inter) == bits((b_)->inter) && bits((a_)->right) == bits((b_)->right))
#define GEN_BEFORE_ADVANCE(d_) ((void) 0)
