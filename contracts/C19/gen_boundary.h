#define GEN_FILE "mptplot/values/iterator_boundary.c"
#define GEN_TYPE MPT_STRUCT(iteratorBoundary)
#define GEN_TYPE_NAME iteratorBoundary
#define GEN_MAKE(n_, a_, b_, c_)  mpt_iterator_boundary((n_), (a_), (b_), (c_))
#define GEN_POS(d_)  ((d_)->pos)
#define GEN_ELEM(d_) ((d_)->elem)
#define GEN_SETPOS(d_, p_) ((d_)->pos = (p_))
#define GEN_EXPECT(d_, p_)  ((p_) == 0 ? in_a : ((p_) + 1 < in_elem ? in_b : in_c))
#define GEN_EXPECT_NEXT(d_, p_, cur_) GEN_EXPECT(d_, (p_) + 1)
