/* C19 unit values.fill (bounded): mpt_values_linear / mpt_values_bound write exactly the strided positions
 * 0, ld, .., (points-1)*ld: end points exact, nothing else touched, nothing outside the target. */
#include "verif.h"
#include <sys/uio.h>
#include "types.h"
#include "values.h"
#ifndef NPTS
# define NPTS 5
#endif
static uint64_t bits(double d) { uint64_t u; memcpy(&u, &d, sizeof(u)); return u; }

void harness(void)
{
	IN(long, in_points); IN(long, in_ld); IN(double, in_a); IN(double, in_b); IN(double, in_c); IN(size_t, in_k); IN(int, in_bound);
	double *t, old = 0; size_t n;
	V_REQ(in_points >= 0 && in_points <= NPTS && in_ld >= 1 && in_ld <= 2);
	n = in_points ? (size_t) ((in_points - 1) * in_ld + 1) : 1;
	t = malloc(n * sizeof(*t)); __CPROVER_assume(t != 0);
	if (in_k < n) old = t[in_k];
	if (in_bound) mpt_values_bound(in_points, t, in_ld, in_a, in_b, in_c);
	else          mpt_values_linear(in_points, t, in_ld, in_a, in_b);
	V_CHECK("fill: no points => nothing written", IMP(in_points < 1 && in_k < n, bits(t[in_k]) == bits(old)));
	V_CHECK("fill: positions between the strides are untouched", IMP(in_points >= 1 && in_k < n && in_k % (size_t) in_ld != 0, bits(t[in_k]) == bits(old)));
	if (in_points >= 2) {
		V_CHECK("fill: first and last values are the bounds exactly", bits(t[0]) == bits(in_a) && bits(t[(in_points - 1) * in_ld]) == bits(in_bound ? in_c : in_b));
		V_CHECK("bound: every inner value is the inner constant", IMP(in_bound && in_k < n && in_k % (size_t) in_ld == 0 && in_k > 0 && in_k < (size_t) ((in_points - 1) * in_ld), bits(t[in_k]) == bits(in_b)));
	}
	V_COVER("strided fill", in_points == NPTS && in_ld == 2);
	free(t);
	V_CANARY();
}
