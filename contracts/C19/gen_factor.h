#define GEN_FILE "mptplot/values/iterator_factor.c"
#define GEN_TYPE MPT_STRUCT(iteratorFactor)
#define GEN_TYPE_NAME iteratorFactor
/* created with defaults, then put into an arbitrary state (base a, factor b, initial value c) */
static MPT_INTERFACE(metatype) *h_make_factor(uint32_t n, double a, double b, double c)
{
	MPT_INTERFACE(metatype) *mt = _mpt_iterator_factor(0); MPT_STRUCT(iteratorFactor) *d;
	if (!mt) return 0;
	d = MPT_baseaddr(iteratorFactor, mt, _mt);
	d->data.base = a; d->data.fact = b; d->data.init = c; d->data.elem = n; d->data.pos = 0; d->data.curr = c;
	return mt;
}
#define GEN_MAKE(n_, a_, b_, c_)  h_make_factor((n_), (a_), (b_), (c_))
#define GEN_POS(d_)  ((d_)->data.pos)
#define GEN_ELEM(d_) ((d_)->data.elem)
/* the current value is part of the state: init at 0, base at 1, then multiplied by the factor */
static double g_curr;
#define GEN_SETPOS(d_, p_) ((d_)->data.pos = (p_), (d_)->data.curr = ((p_) == 0 ? in_c : ((p_) == 1 ? in_a : g_curr)))
#define GEN_EXPECT(d_, p_)  ((p_) == 0 ? in_c : ((p_) == 1 ? in_a : g_curr))
#define GEN_EXPECT_NEXT(d_, p_, cur_) ((p_) == 0 ? in_a : (cur_) * in_b)
