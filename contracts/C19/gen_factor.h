#define GEN_FILE "mptplot/values/iterator_factor.c"
#define GEN_TYPE MPT_STRUCT(iteratorFactor)
#define GEN_TYPE_NAME iteratorFactor
/* created with defaults, then put into an arbitrary state (base a, factor b, initial value c) */
#define GEN_HELPERS \
static double g_curr; static double g_next_; \
static MPT_INTERFACE(metatype) *h_make_factor(uint32_t n, double a, double b, double c) \
{ \
	MPT_INTERFACE(metatype) *mt = _mpt_iterator_factor(0); MPT_STRUCT(iteratorFactor) *d; \
	if (!mt) return 0; \
	d = MPT_baseaddr(iteratorFactor, mt, _mt); \
	d->data.base = a; d->data.fact = b; d->data.init = c; d->data.elem = n; d->data.pos = 0; d->data.curr = c; \
	return mt; \
}
#define GEN_MAKE(n_, a_, b_, c_)  h_make_factor((n_), (a_), (b_), (c_))
#define GEN_POS(d_)  ((d_)->data.pos)
#define GEN_ELEM(d_) ((d_)->data.elem)
/* the current value is part of the state: init at 0, base at 1, then multiplied by the factor each step */
#define GEN_SETPOS(d_, p_) ((d_)->data.pos = (p_), (d_)->data.curr = ((p_) == 0 ? in_c : ((p_) == 1 ? in_a : g_curr)))
#define GEN_EXPECT(d_)  ((d_)->data.pos == 0 ? in_c : ((d_)->data.pos == 1 ? in_a : (d_)->data.curr))
#define GEN_EXPECT_NEXT(d_, cur_) ((d_)->data.pos == 1 ? (d_)->data.base : g_next)
#define GEN_SAME_PARAMS(a_, b_) (bits((a_)->data.base) == bits((b_)->data.base) && bits((a_)->data.fact) == bits((b_)->data.fact) && bits((a_)->data.init) == bits((b_)->data.init) && bits((a_)->data.curr) == bits((b_)->data.curr))
/* the product the code forms in place, from the same operands, before the call */
static double g_next;
#define GEN_BEFORE_ADVANCE(d_) (g_next = (d_)->data.curr * (d_)->data.fact)
