#define GEN_FILE "mptplot/values/iterator_linear.c"
#define GEN_TYPE MPT_STRUCT(iteratorLinear)
#define GEN_TYPE_NAME iteratorLinear
#define GEN_MAKE(n_, a_, b_, c_)  mpt_iterator_linear((n_), (a_), (b_))
#define GEN_POS(d_)  ((d_)->pos)
#define GEN_ELEM(d_) ((d_)->elem)
#define GEN_SETPOS(d_, p_) ((d_)->pos = (p_))
/* the value delivered at pos is the generator's own expression of (base, step, pos), evaluated in double
 * from the object's fields (identical operands: the two multiplier circuits are shared, not compared) */
#define GEN_EXPECT(d_)  ((d_)->base + (d_)->pos * (d_)->step)
#define GEN_EXPECT_NEXT(d_, cur_) GEN_EXPECT(d_)
#define GEN_SAME_PARAMS(a_, b_) (bits((a_)->base) == bits((b_)->base) && bits((a_)->step) == bits((b_)->step))
#define GEN_BEFORE_ADVANCE(d_) ((void) 0)
