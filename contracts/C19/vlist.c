/* C19 unit proto.values: the explicit value list iterator (mptplot/values/iterator_values.c) as a state machine over
 * (cursor into its own copy of the text, current value).  The number parser mpt_cdouble is a stand-in of its contract
 * (consumes 1..remaining characters and yields a value, reports the end of the list, or refuses), so the text content
 * is irrelevant and the state is fully symbolic.  Decided: value() is an element exactly while the list is not
 * exhausted; advance past the end is reported without fault; reset replays from the first value; a clone has the
 * same position and value IN ITS OWN copy of the text - also when the source is exhausted; the text conversion yields
 * the iterator's own copy of the description. */
#include "verif.h"
#include <errno.h>
#include <sys/uio.h>
#include <stdlib.h>
#include <string.h>
#define TLEN 6
/* typed storage: the object is malloc(sizeof(struct) + text length); CBMC would treat it as an untyped byte array, so
 * the allocation is redirected to a pool of two objects of the real struct type followed by room for the text */
static void *h_malloc(size_t n);
static void h_free(void *p) { (void) p; }
static int g_len, g_calls; static double g_val; static const char *g_seen_src;
int mpt_cdouble(double *out, const char *src, const double range[2])
{
	(void) range; g_calls++; g_seen_src = src;
	if (g_len > 0) *out = g_val;
	return g_len;
}
#define malloc h_malloc
#define free   h_free
#include "mptplot/values/iterator_values.c"
#undef malloc
#undef free
typedef MPT_STRUCT(iteratorValues) iv_t;
struct h_obj { iv_t v; char text[TLEN + 2]; };
static struct h_obj h_o[2]; static int h_nobj;
static void *h_malloc(size_t n) { if (n > sizeof(struct h_obj) || h_nobj >= 2) return 0; return &h_o[h_nobj++]; }
static uint64_t bits(double d) { uint64_t u; memcpy(&u, &d, sizeof(u)); return u; }

void harness(void)
{
	char in_text[TLEN + 1]; IN(int, in_first); IN(double, in_v0); IN(size_t, in_off); IN(double, in_curr);
	IN(int, in_len); IN(double, in_v1); IN(int, in_op);
	MPT_INTERFACE(metatype) *mt, *cl; MPT_INTERFACE(iterator) *it = 0, *cit = 0; iv_t *d, *c; const MPT_STRUCT(value) *v; const char *own, *txt = 0; int r; size_t i, tl;
	const int in_exhausted = EXH;          /* per-unit constant: the mixed case exhausted 10 GB in the SAT back end (measured) */
	V_FILL(in_text);
	in_text[TLEN] = 0;
	for (i = 0; i < TLEN; i++) V_REQ(in_text[i] != 0);                       /* a description of exactly TLEN characters */
	tl = TLEN;
	V_REQ(in_first >= 1 && in_first <= (int) tl && !(in_v0 != in_v0));
	g_len = in_first; g_val = in_v0;
	mt = mpt_iterator_values(in_text);
	V_REQ(mt != 0);
	d = MPT_baseaddr(iteratorValues, mt, _mt); own = (const char *) (d + 1);
	V_CHECK("create: positioned behind the first value, in its own copy of the text", d->next == own + in_first && bits(d->curr) == bits(in_v0) && own[0] == in_text[0] && own[TLEN - 1] == in_text[TLEN - 1] && own[TLEN] == 0);
	V_CHECK("create: offers the iterator interface", mt->_vptr->convertable.convert((MPT_INTERFACE(convertable) *) mt, MPT_ENUM(TypeIteratorPtr), &it) >= 0 && it == &d->_it);
	V_CHECK("convert: the text is the iterator's own copy of the description", mt->_vptr->convertable.convert((MPT_INTERFACE(convertable) *) mt, 's', &txt) >= 0 && txt == own);
	/* any reachable state: cursor anywhere in the text, or exhausted */
	V_REQ(in_off <= tl && !(in_curr != in_curr));
	d->next = in_exhausted ? 0 : own + in_off; d->curr = in_curr;
	v = it->_vptr->value(it);
	V_CHECK("value: an element exactly while the list is not exhausted, the current number", (v != 0) == !in_exhausted && IMP(v, v->_type == 'd' && bits(*(const double *) v->_addr) == bits(in_curr)));
#ifndef NOCLONE
	/* clone in this state */
	cl = mt->_vptr->clone(mt);
	V_REQ(cl != 0);
	c = MPT_baseaddr(iteratorValues, cl, _mt);
	V_CHECK("clone: own storage with the same text", c != d && ((const char *) (c + 1))[0] == in_text[0] && ((const char *) (c + 1))[TLEN] == 0);
	V_CHECK("clone: same position in its own text, same current value", IMP(!in_exhausted, c->next == (const char *) (c + 1) + in_off && bits(c->curr) == bits(in_curr)));
	V_CHECK("clone: a clone of an exhausted list is exhausted", IMP(in_exhausted, c->next == 0));
	cl->_vptr->convertable.convert((MPT_INTERFACE(convertable) *) cl, MPT_ENUM(TypeIteratorPtr), &cit);
	V_CHECK("clone: reading it is never a fault and agrees with the source", cit != 0 && (cit->_vptr->value(cit) != 0) == !in_exhausted);
#endif
#ifndef NOSTEP
	/* one step on the source (not in the unit for a live cursor: the step after a clone did not fit 10 GB, measured;
	 * stepping a live cursor is decided in unit proto.values.step without the clone) */
	V_REQ(in_len >= -1 && in_len <= (int) (tl - (in_exhausted ? 0 : in_off)) && !(in_v1 != in_v1));
	g_len = in_len; g_val = in_v1; g_calls = 0;
	if (in_op == 0) {
		r = it->_vptr->advance(it);
		V_CHECK("advance: past the end is reported, nothing is parsed", IMP(in_exhausted, r < 0 && g_calls == 0 && d->next == 0));
		V_CHECK("advance: the parser reads at the cursor; a further number moves behind it", IMP(!in_exhausted && in_off < tl && in_len > 0, r == 'd' && g_seen_src == own + in_off && d->next == own + in_off + in_len && bits(d->curr) == bits(in_v1)));
		V_CHECK("advance: end of the list is reported as 'no further element' and sticks", IMP(!in_exhausted && (in_off == tl || in_len == 0), r == 0 && d->next == 0));
		V_CHECK("advance: a malformed number is refused, the position stays", IMP(!in_exhausted && in_off < tl && in_len < 0, r < 0 && d->next == own + in_off));
	} else {
		r = it->_vptr->reset(it);
		V_CHECK("reset: replays from the first value", IMP(in_len > 0, r >= 0 && g_seen_src == own && d->next == own + in_len && bits(d->curr) == bits(in_v1)));
		V_CHECK("reset: a description without a first value is refused", IMP(in_len <= 0, r < 0));
	}
#ifndef NOCLONE
	V_CHECK("clone: stepping the source leaves the clone", IMP(!in_exhausted, c->next == (const char *) (c + 1) + in_off && bits(c->curr) == bits(in_curr)) && IMP(in_exhausted, c->next == 0));
#endif
#endif
#if EXH && !defined(NOCLONE)
	V_COVER("clone of an exhausted list", in_exhausted != 0 && c->next == 0);
#endif
#if !defined(NOSTEP) && !EXH
	V_COVER("advanced to a further number", in_op == 0 && r == 'd');
#endif
#if !defined(NOSTEP) && EXH
	V_COVER("reset after exhaustion", in_op && in_exhausted && r >= 0);
#endif
	V_CANARY();
}
