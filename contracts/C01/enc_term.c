/* C01 units enc_<variant>.term: the terminating call (base == NULL) closes the open block and appends the
 * single delimiter; COBS/R variants inline the last data byte into the code slot when the framing allows. */
#include "verif.h"
#include <sys/uio.h>
#include "message.h"
#include "convert.h"
#ifndef MAXBUF
# define MAXBUF 1024
#endif
#ifndef ENC_FN
# define ENC_FN mpt_encode_cobs
# define ENC_MAXLEN 255
# define ENC_INLINE 0
#endif
typedef MPT_STRUCT(encode_state) enc_t;
size_t g_done, g_scratch, g_cap, g_z; uint8_t g_vz, g_last;
#define OUT(c_) ((const uint8_t *) (c_)->iov_base)

/* the spec's tail-inline predicate (plain: e > c; ZPE: additionally c, e <= 0xDF so no pair code appears) */
#if ENC_INLINE
# define INLINES  (g_scratch > 1 && g_last > g_scratch && (ENC_MAXLEN == 255 || (g_scratch <= ENC_MAXLEN && g_last <= ENC_MAXLEN)))
#else
# define INLINES  0
#endif
#define NEED      (g_scratch == 0 ? 2 : (INLINES ? g_scratch : g_scratch + 1))
#define ROOM      (g_cap - g_done)

#define POST_TERM(X, i_, c_, r_) \
	X("term.needs-room: without room for the delimiter MissingBuffer, state unchanged", IMP(ROOM < NEED, (r_) == MPT_ERROR(MissingBuffer) && (i_)->done == g_done && (i_)->scratch == g_scratch)) \
	X("term.succeeds-with-room", IMP(ROOM >= NEED, (r_) == 0)) \
	X("term.state: block closed, nothing open, frame length", IMP((r_) == 0, (i_)->scratch == 0 && (i_)->done == g_done + NEED && (i_)->_ctx == 0)) \
	X("term.empty-message is the frame 01 00", IMP((r_) == 0 && g_scratch == 0, OUT(c_)[g_done] == 1 && OUT(c_)[g_done + 1] == 0)) \
	X("term.code-byte holds the block length", IMP((r_) == 0 && g_scratch > 0 && !INLINES, OUT(c_)[g_done] == g_scratch && OUT(c_)[g_done + g_scratch] == 0)) \
	X("term.inlined: last data byte moves into the code slot, frame one byte shorter", IMP((r_) == 0 && INLINES, OUT(c_)[g_done] == g_last && OUT(c_)[g_done + g_scratch - 1] == 0)) \
	X("term.single-delimiter: no zero byte before the delimiter", IMP((r_) == 0 && g_z < g_cap && g_z >= g_done && g_z + 1 < g_done + NEED, OUT(c_)[g_z] != 0)) \
	X("term.block-data untouched", IMP(g_z < g_cap && g_z > g_done && g_z + (INLINES ? 1 : 0) < g_done + g_scratch, OUT(c_)[g_z] == g_vz)) \
	X("term.finished-frames untouched", IMP(g_z < g_done, OUT(c_)[g_z] == g_vz)) \
	X("term.refusal writes nothing", IMP((r_) != 0 && g_z < g_cap && g_z != g_done, OUT(c_)[g_z] == g_vz))

ssize_t ENC_FN(enc_t *info, const struct iovec *cobs, const struct iovec *base)
__CPROVER_requires(base == 0 && cobs->iov_base != 0)
__CPROVER_requires(info->done == g_done && info->scratch == g_scratch && cobs->iov_len == g_cap)
__CPROVER_requires(g_scratch < ENC_MAXLEN && g_done <= g_cap && g_scratch <= g_cap - g_done && g_cap <= MAXBUF)
__CPROVER_requires(IMP(g_z < g_cap, g_vz == OUT(cobs)[g_z]) && IMP(g_scratch > 1, g_last == OUT(cobs)[g_done + g_scratch - 1]))
/* the open block holds no zero byte (established by the data calls, enc_*.data) */
__CPROVER_requires(IMP(g_z > g_done && g_z < g_done + g_scratch, OUT(cobs)[g_z] != 0) && IMP(g_scratch > 1, g_last != 0))
__CPROVER_assigns(info->_ctx, info->done, info->scratch, __CPROVER_object_whole(cobs->iov_base))
POST_TERM(C_ENSURES, info, cobs, __CPROVER_return_value)
;

ssize_t mpt_memrchr(const struct iovec *data, size_t ndat, int tok)
__CPROVER_requires(ndat == 1)
__CPROVER_assigns()
__CPROVER_ensures(__CPROVER_return_value == -2 || __CPROVER_return_value == -1 || (__CPROVER_return_value >= 0 && (size_t)__CPROVER_return_value < data[0].iov_len))
;

void harness(void)
{
	IN(size_t, in_cap); IN(size_t, in_done); IN(size_t, in_scratch); IN(size_t, in_z);
	enc_t st = MPT_ENCODE_INIT; struct iovec out; uint8_t *buf; ssize_t r;
	V_REQ(in_cap >= 1 && in_cap <= MAXBUF && in_scratch < ENC_MAXLEN && in_done <= in_cap && in_scratch <= in_cap - in_done);
	IN_BUF(buf, in_cap);
	out.iov_base = buf; out.iov_len = in_cap;
	st.done = in_done; st.scratch = in_scratch;
	g_done = in_done; g_scratch = in_scratch; g_cap = in_cap; g_z = in_z;
	if (g_z < g_cap) g_vz = buf[g_z];
	if (g_scratch > 1) g_last = buf[g_done + g_scratch - 1];
	V_REQ(IMP(g_z > g_done && g_z < g_done + g_scratch, buf[g_z] != 0) && IMP(g_scratch > 1, g_last != 0));
	r = ENC_FN(&st, &out, 0);
	POST_TERM(H_ENS, &st, &out, r)
	V_COVER("empty message", r == 0 && g_scratch == 0);
	V_COVER("regular termination", r == 0 && g_scratch > 1 && !INLINES);
#if ENC_INLINE
	V_COVER("tail inlined", r == 0 && INLINES);
	V_COVER("exactly full buffer still terminates when inlining", r == 0 && INLINES && ROOM == g_scratch);
#endif
	V_COVER("no room", r != 0);
	V_CANARY();
}
