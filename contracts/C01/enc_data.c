/* C01 unit enc_<variant>.data: one call of the resumable block encoder with message data, from ANY
 * encoder state (done, scratch = open block length) satisfying the state invariant, for ANY input
 * length and output capacity (<= MAXBUF).  Loop contract + ghost re-base woven into a scratch copy. */
#include "verif.h"
#include <sys/uio.h>
#include "message.h"
#include "convert.h"
#ifndef MAXBUF
# define MAXBUF 1024
#endif
#ifndef ENC_FN
# define ENC_FN mpt_encode_cobs
# define ENC_MAXLEN 255
#endif
size_t g_z, g_old_open; unsigned char g_old_byte;
#define OUT(c) ((const uint8_t *)(c)->iov_base)

ssize_t ENC_FN(MPT_STRUCT(encode_state) *info, const struct iovec *cobs, const struct iovec *base)
__CPROVER_requires(__CPROVER_is_fresh(info, sizeof(*info)))
__CPROVER_requires(__CPROVER_is_fresh(cobs, sizeof(*cobs)))
__CPROVER_requires(__CPROVER_is_fresh(base, sizeof(*base)))
__CPROVER_requires(cobs->iov_len <= MAXBUF && __CPROVER_is_fresh(cobs->iov_base, cobs->iov_len))
__CPROVER_requires(base->iov_len >= 1 && base->iov_len <= MAXBUF && __CPROVER_is_fresh(base->iov_base, base->iov_len))
/* state invariant of the resumable encoder */
__CPROVER_requires(info->scratch < ENC_MAXLEN && info->done <= cobs->iov_len && info->scratch <= cobs->iov_len - info->done)
__CPROVER_requires(g_z < cobs->iov_len)
__CPROVER_requires((g_z > info->done && g_z < info->done + info->scratch) ==> OUT(cobs)[g_z] != 0)
__CPROVER_requires(g_old_byte == OUT(cobs)[g_z])
__CPROVER_requires(g_old_open == (info->scratch ? info->scratch : 1))
__CPROVER_assigns(info->_ctx, info->done, info->scratch, __CPROVER_object_whole(cobs->iov_base))
/* consumed count, state invariant re-established */
__CPROVER_ensures(__CPROVER_return_value >= 1 ==> (__CPROVER_return_value <= base->iov_len && info->scratch >= 1 && info->scratch < ENC_MAXLEN && info->done >= __CPROVER_old(info->done) && info->done <= cobs->iov_len && info->scratch <= cobs->iov_len - info->done))
/* the open block's code slot holds its length */
__CPROVER_ensures(__CPROVER_return_value >= 1 ==> OUT(cobs)[info->done] == info->scratch)
/* every consumed byte is accounted for in the output (nothing reported consumed but not written) */
__CPROVER_ensures(__CPROVER_return_value >= 1 ==> ENC_PROGRESS((info->done + info->scratch) - (__CPROVER_old(info->done) + g_old_open), (size_t) __CPROVER_return_value))
/* no progress only as MissingBuffer, state unchanged: the buffer-full retry is lossless */
__CPROVER_ensures(__CPROVER_return_value < 1 ==> (__CPROVER_return_value == MPT_ERROR(MissingBuffer) && info->done == __CPROVER_old(info->done) && info->scratch == __CPROVER_old(info->scratch)))
/* no zero byte anywhere in what was produced (the code slot of the open block is checked above) */
__CPROVER_ensures((__CPROVER_return_value >= 1 && g_z >= __CPROVER_old(info->done) && g_z < info->done + info->scratch) ==> OUT(cobs)[g_z] != 0)
/* finished bytes below the old 'done' untouched */
__CPROVER_ensures(g_z < __CPROVER_old(info->done) ==> OUT(cobs)[g_z] == g_old_byte)
/* reachability probes: each of these must FAIL */
__CPROVER_ensures(!(__CPROVER_return_value == MPT_ERROR(MissingBuffer))) /*@cover: buffer full, nothing consumed*/
__CPROVER_ensures(!(__CPROVER_return_value >= 1 && (size_t) __CPROVER_return_value == base->iov_len && info->scratch > 1)) /*@cover: input consumed completely with an open block*/
__CPROVER_ensures(!(__CPROVER_return_value >= 1 && (size_t) __CPROVER_return_value < base->iov_len)) /*@cover: stopped early for lack of space*/
__CPROVER_ensures(!(__CPROVER_return_value >= ENC_MAXLEN && info->done > __CPROVER_old(info->done) + ENC_MAXLEN)) /*@cover: a maximal block was closed*/
;
ssize_t mpt_memrchr(const struct iovec *data, size_t ndat, int tok)
__CPROVER_requires(ndat == 1)
__CPROVER_assigns()
__CPROVER_ensures(__CPROVER_return_value == -2 || __CPROVER_return_value == -1 || (__CPROVER_return_value >= 0 && (size_t)__CPROVER_return_value < data[0].iov_len))
;
void harness(void)
{
	MPT_STRUCT(encode_state) *i; struct iovec *c, *b; ssize_t r;
	r = ENC_FN(i, c, b);
	(void) r;
	V_CANARY();
}
