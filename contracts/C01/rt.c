/* C01 unit rt.<framing>: literal round trip on the real encoder and decoder bodies for every message of
 * <= NMSG bytes handed over in two pieces at every split point: decode(encode(m)) == m, the frame
 * holds no zero byte except its single delimiter.  Bounded stand-in (message length). */
#include "verif.h"
#include <sys/uio.h>
#include "message.h"
#include "convert.h"
#ifndef NMSG
# define NMSG 5
#endif
#define FCAP (NMSG + 4)
/* zero-pair codes expand when decoded: the in-place decoder then asks for buffer space (MissingBuffer)
 * which its caller grants in front of the data (mpt_queue_recv/mpt_qpre); the harness grants it up front */
#ifndef SLACK
# define SLACK 0
#endif
#ifndef ENC_FN
# define ENC_FN mpt_encode_cobs
# define DEC_FN mpt_decode_cobs
#endif

void harness(void)
{
	uint8_t in_msg[NMSG]; IN(size_t, in_len); IN(size_t, in_split); IN(size_t, in_k); V_FILL(in_msg);
	uint8_t store[SLACK + FCAP], *frame = store + SLACK; struct iovec out = { frame, FCAP }, src;
	MPT_STRUCT(encode_state) enc = MPT_ENCODE_INIT; MPT_STRUCT(decode_state) dec = MPT_DECODE_INIT;
	ssize_t r; size_t flen, i; int d;
	V_REQ(in_len <= NMSG && in_split <= in_len);
#ifndef RT_SPLIT
	V_REQ(in_split == in_len);   /* quick tier: one push; every split point in the thorough tier */
#endif
#ifdef TEXT_FRAMING
	for (i = 0; i < NMSG; i++) V_REQ(IMP(i < in_len, in_msg[i] != 0));   /* the command framing admits messages without the delimiter byte */
#endif
	/* first piece */
	if (in_split) {
		src.iov_base = in_msg; src.iov_len = in_split;
		r = ENC_FN(&enc, &out, &src);
		V_CHECK("rt: first piece consumed", r == (ssize_t) in_split);
	}
	if (in_split < in_len) {
		src.iov_base = in_msg + in_split; src.iov_len = in_len - in_split;
		r = ENC_FN(&enc, &out, &src);
		V_CHECK("rt: second piece consumed", r == (ssize_t) (in_len - in_split));
	}
	r = ENC_FN(&enc, &out, 0);
	V_CHECK("rt: terminated", r >= 0 && enc.scratch == 0 && enc.done >= 1 && enc.done <= FCAP);
	flen = enc.done;
	V_CHECK("rt: frame ends with the delimiter", frame[flen - 1] == 0);
	V_CHECK("rt: no zero byte inside the frame", IMP(in_k < flen - 1, frame[in_k] != 0));
	/* decode in place */
	src.iov_base = store; src.iov_len = SLACK + flen;
	dec.curr = SLACK;
	d = DEC_FN(&dec, &src, 1);
	V_CHECK("rt: decoder delivers a message", d == 1 && dec.data.msg >= 0);
#ifdef TEXT_FRAMING
	/* the command decoder delivers the text behind a two byte message header it puts in front (needs that space: SLACK) */
# define HDR 2
	V_CHECK("rt: command header", store[dec.data.pos] == MPT_MESGTYPE(Command) && store[dec.data.pos + 1] == ' ');
#else
# define HDR 0
#endif
	V_CHECK("rt: same length", (size_t) dec.data.msg == in_len + HDR);
	V_CHECK("rt: same bytes", IMP(in_k < in_len, dec.data.pos + HDR + in_k < SLACK + FCAP && store[dec.data.pos + HDR + in_k] == in_msg[in_k]));
#if defined(RT_SPLIT) && !defined(TEXT_FRAMING)
	V_COVER("message with inner zero handed over in two pieces", in_len >= 3 && in_split > 0 && in_split < in_len && in_msg[1] == 0);
#elif defined(RT_SPLIT)
	V_COVER("text handed over in two pieces", in_len >= 3 && in_split > 0 && in_split < in_len);
#endif
	V_COVER("empty message", in_len == 0);
#ifndef TEXT_FRAMING
	V_COVER("zero pair", in_len >= 4 && in_msg[1] == 0 && in_msg[2] == 0 && in_msg[0] != 0);
#endif
	V_COVER("longest message", in_len == NMSG);
	V_CANARY();
}
