/* C01 unit enc_string: zero terminated command framing (the state the dispatcher uses: single byte
 * delimiter, scratch == 0).  Bytes are copied verbatim, a message containing the delimiter is refused,
 * the terminating call appends exactly one delimiter.  memchr is replaced by its contract, so the
 * text length is unbounded (<= MAXBUF as object capacity). */
#include "verif.h"
#include <string.h>
#include <sys/uio.h>
#include "message.h"
#include "convert.h"
#ifndef MAXBUF
# define MAXBUF 1024
#endif
typedef MPT_STRUCT(encode_state) enc_t;
size_t g_done, g_cap, g_len, g_z, g_j; uint8_t g_vz, g_vj, g_delim; int g_term;
size_t g_m;   /* ghost index for the memchr contract */
#define OUT(c_) ((const uint8_t *) (c_)->iov_base)

/*@assume: contract of memchr (first occurrence or NULL), stated over one ghost index */
void *memchr(const void *s, int c, size_t n)
__CPROVER_requires(__CPROVER_r_ok(s, n))
__CPROVER_assigns()
__CPROVER_ensures(__CPROVER_return_value == 0 || (__CPROVER_same_object(__CPROVER_return_value, s) && __CPROVER_POINTER_OFFSET(__CPROVER_return_value) >= __CPROVER_POINTER_OFFSET(s) && (size_t) __CPROVER_POINTER_OFFSET(__CPROVER_return_value) < (size_t) __CPROVER_POINTER_OFFSET(s) + n && *(const uint8_t *) __CPROVER_return_value == (uint8_t) c))
__CPROVER_ensures(IMP(__CPROVER_return_value == 0 && g_m < n, ((const uint8_t *) s)[g_m] != (uint8_t) c))
;

#define TAKE  (g_len < g_cap - g_done ? g_len : g_cap - g_done)
#define POST_mpt_encode_string(X, i_, c_, r_) \
	X("string.term: one delimiter appended", IMP(g_term && g_done < g_cap, (r_) == 0 && (i_)->done == g_done + 1 && OUT(c_)[g_done] == g_delim)) \
	X("string.term: no room => MissingBuffer, state unchanged", IMP(g_term && g_done == g_cap, (r_) == MPT_ERROR(MissingBuffer) && (i_)->done == g_done)) \
	X("string.data: no room => MissingBuffer, state unchanged", IMP(!g_term && g_done == g_cap, (r_) == MPT_ERROR(MissingBuffer) && (i_)->done == g_done)) \
	X("string.data: result is the part that fits, or a refusal", IMP(!g_term && g_done < g_cap, (r_) == (ssize_t) TAKE || (r_) == MPT_ERROR(BadEncoding))) \
	X("string.data: text containing the delimiter in the part to copy is refused", IMP(!g_term && g_done < g_cap && g_j < TAKE && g_vj == g_delim, (r_) == MPT_ERROR(BadEncoding))) \
	X("string.data: refusal leaves the state", IMP((r_) < 0, (i_)->done == g_done)) \
	X("string.data: accepted bytes copied verbatim", IMP(!g_term && (r_) > 0 && g_j < (size_t) (r_), OUT(c_)[g_done + g_j] == g_vj && (i_)->done == g_done + (size_t) (r_))) \
	X("string: finished text untouched", IMP(g_z < g_done, OUT(c_)[g_z] == g_vz)) \
	X("string: nothing written behind the new end", IMP(g_z < g_cap && g_z >= (i_)->done, OUT(c_)[g_z] == g_vz)) \
	X("string: scratch and delimiter setting untouched", (i_)->scratch == 0 && (i_)->_ctx == g_delim)

ssize_t mpt_encode_string(enc_t *info, const struct iovec *to, const struct iovec *from)
__CPROVER_requires(info->scratch == 0 && info->done == g_done && info->_ctx == g_delim && to->iov_len == g_cap && g_done <= g_cap && g_cap <= MAXBUF && to->iov_base != 0)
__CPROVER_requires(g_term ? from == 0 : (from != 0 && from->iov_base != 0 && from->iov_len == g_len && g_len >= 1 && g_len <= MAXBUF))
__CPROVER_requires(IMP(g_z < g_cap, g_vz == OUT(to)[g_z]) && IMP(!g_term && g_j < g_len, g_vj == ((const uint8_t *) from->iov_base)[g_j]))
__CPROVER_requires(g_m == g_j)
__CPROVER_assigns(info->done, __CPROVER_object_whole(to->iov_base))
POST_mpt_encode_string(C_ENSURES, info, to, __CPROVER_return_value)
;

void harness(void)
{
	IN(size_t, in_cap); IN(size_t, in_done); IN(size_t, in_len); IN(size_t, in_z); IN(size_t, in_j); IN(int, in_term);
	enc_t st = MPT_ENCODE_INIT; struct iovec out, src; uint8_t *buf, *txt; ssize_t r;
	V_REQ(in_cap >= 1 && in_cap <= MAXBUF && in_done <= in_cap && in_len >= 1 && in_len <= MAXBUF);
	IN_BUF(buf, in_cap); IN_BUF(txt, in_len);
	out.iov_base = buf; out.iov_len = in_cap; src.iov_base = txt; src.iov_len = in_len;
	st.done = in_done; st._ctx = 0;
	g_done = in_done; g_cap = in_cap; g_len = in_len; g_z = in_z; g_j = g_m = in_j; g_term = in_term != 0; g_delim = 0;
	if (g_z < g_cap) g_vz = buf[g_z];
	if (g_j < g_len) g_vj = txt[g_j];
	r = mpt_encode_string(&st, &out, g_term ? 0 : &src);
	POST_mpt_encode_string(H_ENS, &st, &out, r)
	V_COVER("text copied partially for lack of space", !g_term && r > 0 && (size_t) r < g_len);
	V_COVER("text with delimiter refused", r == MPT_ERROR(BadEncoding));
	V_COVER("terminated", g_term && r == 0);
	V_CANARY();
}
