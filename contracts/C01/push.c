/* C01 unit array_push.retry: the MissingBuffer retry loop of mpt_array_push, "however the output space is
 * granted".  The encoder is replaced by an operational stub of the contract proved in enc_*.data (consumes
 * 1..min(len, room) bytes or reports MissingBuffer leaving its state; may stop early when space runs out), the
 * buffer by a stub that grows in arbitrary steps or fails.  The stub asserts that every call hands over
 * exactly the not yet consumed rest of the caller's data, at the output position the state denotes. */
#include "verif.h"
#include <errno.h>
#include <stdarg.h>
#include <sys/uio.h>
#include "types.h"
#include "array.h"
#include "output.h"
#include "convert.h"

#define DCAP 200
struct h_buf { MPT_STRUCT(buffer) b; uint8_t data[8]; };
static struct h_buf h_b;              /* one buffer object that "grows" by changing its size field (no data is written by the stub encoder) */
static int h_detaches, h_alloc_fails_at;
static uint32_t h_flags(const MPT_STRUCT(buffer) *b) { (void) b; return 0; }
static void h_unref(MPT_STRUCT(buffer) *b) { (void) b; }
static uintptr_t h_addref(MPT_STRUCT(buffer) *b) { (void) b; return 1; }
static MPT_STRUCT(buffer) *h_detach(MPT_STRUCT(buffer) *b, size_t n)
{
	size_t sz;
	h_detaches++;
	if (h_detaches > h_alloc_fails_at) return 0;          /* allocation may fail at any attempt */
	if (n <= b->_size) return b;
	V_ND(size_t, sz); __CPROVER_assume(sz >= n && sz <= n + 128);
	*((size_t *) &b->_size) = sz;
	return b;
}
static const MPT_INTERFACE_VPTR(buffer) h_vptr = { h_flags, h_unref, h_addref, h_detach };
MPT_STRUCT(buffer) *_mpt_buffer_alloc(size_t len, int flags)
{
	size_t sz; (void) flags; V_ND(size_t, sz);
	h_detaches++;
	if (h_detaches > h_alloc_fails_at) return 0;
	__CPROVER_assume(sz >= len && sz <= len + 128);
	h_b.b._vptr = &h_vptr; h_b.b._content_traits = 0; *((size_t *) &h_b.b._size) = sz; h_b.b._used = 0;
	return &h_b.b;
}
int mpt_log(MPT_INTERFACE(logger) *l, const char *f, int t, const char *fmt, ...) { (void) l; (void) f; (void) t; (void) fmt; return 0; }
void *mpt_array_insert(MPT_STRUCT(array) *a, size_t pos, size_t len) { (void) a; (void) pos; (void) len; return 0; }   /* raw (unencoded) path: not this unit */

/* ---- encoder stub = the contract of enc_*.data / enc_*.term ---- */
static const uint8_t *g_data; static size_t g_len, g_consumed; static int g_calls, g_term_calls, g_bad;
static ssize_t h_enc(MPT_STRUCT(encode_state) *st, const struct iovec *out, const struct iovec *src)
{
	size_t room, take;
	if (!out) { st->done = st->scratch = 0; st->_ctx = 0; return 0; }
	g_calls++;
	/* the output vector is the buffer area from the finished frames on, the state fits into it */
	if ((const uint8_t *) out->iov_base + 0 != h_b.data + 0 && out->iov_base != (void *) (h_b.data + (h_b.b._used - st->done - st->scratch))) g_bad = 1;
	if (st->done > out->iov_len || st->scratch > out->iov_len - st->done) return MPT_ERROR(BadArgument);
	room = out->iov_len - st->done - st->scratch;
	if (!src) {                                  /* termination: needs one more byte (two for an empty message) */
		g_term_calls++;
		if (room < (st->scratch ? 1u : 2u)) return MPT_ERROR(MissingBuffer);
		st->done += st->scratch ? st->scratch + 1 : 2; st->scratch = 0;
		return 0;
	}
	/* data: exactly the not yet consumed rest of the caller's bytes */
	__CPROVER_assert(src->iov_base == (void *) (g_data + g_consumed) && src->iov_len == g_len - g_consumed, "push: the encoder is handed exactly the unconsumed rest of the data");
	if (room < 2) return MPT_ERROR(MissingBuffer);
	V_ND(size_t, take); __CPROVER_assume(take >= 1 && take <= src->iov_len && take < room);
	/* the encoder stops early only because the output space is (nearly: block overhead) used up */
	__CPROVER_assume(take == src->iov_len || room - take <= 3);
	st->scratch += take; if (!st->done && 0) st->done = 0;
	g_consumed += take;
	return (ssize_t) take;
}

void harness(void)
{
	IN(size_t, in_len); IN(int, in_fail_at); IN(int, in_has_buf); IN(size_t, in_size); IN(size_t, in_done); IN(size_t, in_scratch);
	static uint8_t data[DCAP]; MPT_STRUCT(encode_array) arr; ssize_t r;
	V_REQ(in_len <= DCAP && in_fail_at >= 0 && in_fail_at <= 6);
	arr._d._buf = 0; arr._state.done = arr._state.scratch = 0; arr._state._ctx = 0; arr._enc = h_enc;
	if (in_has_buf) {
		V_REQ(in_size <= 150 && in_done <= in_size && in_scratch <= in_size - in_done);
		h_b.b._vptr = &h_vptr; h_b.b._content_traits = 0; *((size_t *) &h_b.b._size) = in_size; h_b.b._used = in_done + in_scratch;
		arr._d._buf = &h_b.b; arr._state.done = in_done; arr._state.scratch = in_scratch;
	}
	g_data = data; g_len = in_len; g_consumed = 0; g_calls = g_term_calls = g_bad = 0; h_detaches = 0; h_alloc_fails_at = in_fail_at;
	{ const uint8_t *dp = data; if (!in_len) dp = 0; r = mpt_array_push(&arr, in_len, dp); }
	if (in_len) {
		V_CHECK("push: returns the number of bytes the encoder consumed, never more than given", r < 0 ? 1 : ((size_t) r == g_consumed && g_consumed <= in_len));
		V_CHECK("push: with space granted every byte is consumed", IMP(in_fail_at >= 6, r == (ssize_t) in_len));
		V_CHECK("push: an error is only reported when nothing was consumed", IMP(r < 0, g_consumed == 0));
		V_CHECK("push: used size tracks the encoder state", IMP(r >= 0 && arr._d._buf, arr._d._buf->_used == arr._state.done + arr._state.scratch && arr._d._buf->_used <= arr._d._buf->_size));
	} else {
		V_CHECK("push(terminate): succeeds once space is granted, nothing left open", IMP(in_fail_at >= 6, r >= 0 && arr._state.scratch == 0 && g_term_calls >= 1));
	}
	V_CHECK("push: the output vector always is the buffer area behind the finished frames", !g_bad);
	V_COVER("several partial writes with growth in between", g_calls >= 3 && r == (ssize_t) in_len && in_len > 2);
	V_COVER("allocation failure after partial progress", r > 0 && (size_t) r < in_len);
	V_COVER("terminated", !in_len && r >= 0 && g_term_calls >= 1);
	V_CANARY();
}
