/* C20 units line.set / line.get: every property of the `line` layout object, with a symbolic object
 * pre-state and a symbolic value source (a convertable stub that offers a value of the requested type or
 * refuses): an accepted value is the one read back, no other property changes (frame: every other field
 * compared), a refused value leaves the object unchanged, NULL restores the documented default. */
#include "verif.h"
#include <ctype.h>
#include <strings.h>
#include <sys/uio.h>
#include "types.h"
#include "object.h"
#include "values.h"
#include "layout.h"
#include "../C07/ctype_model.h"

typedef MPT_STRUCT(line) line_t;
/* type ids come from the registry (C06); here fixed distinct ids */
int mpt_type_basic_add(size_t size) { static int n; (void) size; return 0xc0 + n++; }
int mpt_type_add(const MPT_STRUCT(type_traits) *t) { static int n; (void) t; return 0x900 + n++; }
static const MPT_STRUCT(type_traits) h_tr_f = MPT_TYPETRAIT_INIT(sizeof(float)), h_tr_y = MPT_TYPETRAIT_INIT(1), h_tr_c = MPT_TYPETRAIT_INIT(4);
const MPT_STRUCT(type_traits) *mpt_type_traits(MPT_TYPE(type) t) { return t == 'f' ? &h_tr_f : (t == 'y' ? &h_tr_y : (t >= 0xc0 && t <= 0xff ? &h_tr_c : 0)); }

/* value source stub */
static struct { MPT_INTERFACE(convertable) c; int offer_f, offer_d, offer_y, offer_i, offer_s, offer_col, empty; float f; double d; uint8_t y; int32_t i; const char *s; MPT_STRUCT(color) col; int asked; } h_src;
static int h_convert(MPT_INTERFACE(convertable) *c, MPT_TYPE(type) t, void *dest)
{
	int len = h_src.empty ? 0 : 1;      /* 0: the source holds the 'empty/default' value of that type (nothing is stored) */
	(void) c; h_src.asked++;
	if (h_src.empty) dest = 0;
	if (t == 'f' && h_src.offer_f) { if (dest) *(float *) dest = h_src.f; return len; }
	if (t == 'd' && h_src.offer_d) { if (dest) *(double *) dest = h_src.d; return len; }
	if (t == 'y' && h_src.offer_y) { if (dest) *(uint8_t *) dest = h_src.y; return len; }
	if (t == 'i' && h_src.offer_i) { if (dest) *(int32_t *) dest = h_src.i; return len; }
	if (t == 's' && h_src.offer_s) { if (dest) *(const char **) dest = h_src.s; return len; }
	if (t == (MPT_TYPE(type)) mpt_color_typeid() && h_src.offer_col) { if (dest) *(MPT_STRUCT(color) *) dest = h_src.col; return len; }
	return MPT_ERROR(BadType);
}
static const MPT_INTERFACE_VPTR(convertable) h_src_vptr = { h_convert };

static const char * const NAMES[] = { "x1", "x2", "y1", "y2", "color", "width", "style", "symbol", "size" };
static const int MAXV[] = { 0, 0, 0, 0, 0, 10, 5, 8, 20 };     /* documented maxima of the attribute fields */
static const int DEFV[] = { 0, 0, 0, 0, 0, 1, 1, 0, 10 };       /* documented defaults */
static uint32_t fbits(float f) { uint32_t u; memcpy(&u, &f, 4); return u; }

#if defined(UNIT_WHOLE)
/* whole-object query (property name ""): reports 'changed' exactly when ANY member differs from the default line */
void harness(void)
{
	line_t li, def; uint8_t in_pre[sizeof(line_t)]; MPT_STRUCT(property) pr; int r; size_t k; int differs = 0; V_FILL(in_pre);
	memcpy(&li, in_pre, sizeof(li));
	mpt_line_init(&def);
	for (k = 0; k < sizeof(li); k++) if (((const uint8_t *) &li)[k] != ((const uint8_t *) &def)[k]) differs = 1;
	pr.name = ""; pr.desc = 0;
	r = mpt_line_get(&li, &pr);
	V_CHECK("get(whole object): 'changed' exactly when some member differs from the default", r == (differs ? 1 : 0));
	V_CHECK("get(whole object): the object is not modified", memcmp(&li, in_pre, sizeof(li)) == 0);
	V_COVER("only a position differs", r == 1 && memcmp(&li, &def, 8) == 0);
	V_COVER("default line", r == 0);
	V_CANARY();
}
#elif defined(UNIT_CSET)
/* mpt_color_set: the three channels as given, opaque - whatever the colour held before; out of range values refused */
void harness(void)
{
	IN(int, in_r); IN(int, in_g); IN(int, in_b); MPT_STRUCT(color) col, old; uint8_t in_pre[sizeof(MPT_STRUCT(color))]; int r;
	V_FILL(in_pre);
	memcpy(&col, in_pre, sizeof(col)); old = col;
	r = mpt_color_set(&col, in_r, in_g, in_b);
	if (in_r < 0 || in_r > 255 || in_g < 0 || in_g > 255 || in_b < 0 || in_b > 255) {
		V_CHECK("color_set: a channel outside 0..255 is refused, the colour untouched", r < 0 && memcmp(&col, &old, sizeof(col)) == 0);
	} else {
		V_CHECK("color_set: channels as given, opaque, whatever was there before", r >= 0 && col.red == in_r && col.green == in_g && col.blue == in_b && col.alpha == 255);
	}
	V_COVER("translucent colour overwritten", r >= 0 && old.alpha != 255);
	V_CANARY();
}
#elif defined(UNIT_HTML)
/* html colour text "RRGGBB[AA]" (hex pair parser by stand-in): every channel incl. alpha is stored as parsed */
static int g_pairs; static uint8_t g_vals[4]; static int g_fail_at;
int mpt_cuint8(uint8_t *out, const char *txt, int base, const uint8_t range[2])
{
	(void) txt; (void) range;
	if (base != 0x10 || g_pairs >= 4) return MPT_ERROR(BadArgument);
	if (g_pairs + 1 == g_fail_at) { g_pairs++; return MPT_ERROR(BadValue); }
	*out = g_vals[g_pairs++];
	return 2;
}
void harness(void)
{
	char in_txt[9]; IN(int, in_fail_at); IN(int, in_has_col); uint8_t in_vals[4]; MPT_STRUCT(color) col, old; uint8_t in_pre[sizeof(MPT_STRUCT(color))]; int r, n, i;
	V_FILL(in_txt); V_FILL(in_vals); V_FILL(in_pre);
	in_txt[8] = 0;
	for (n = 0; n < 8 && in_txt[n]; n++) ;
	memcpy(&col, in_pre, sizeof(col)); old = col;
	for (i = 0; i < 4; i++) g_vals[i] = in_vals[i];
	g_fail_at = in_fail_at; g_pairs = 0;
	r = mpt_color_html(in_has_col ? &col : 0, in_txt);
	V_CHECK("html: an odd number of digits or a malformed pair is refused, the colour untouched", IMP((n & 1) || (in_fail_at >= 1 && in_fail_at <= n / 2), r < 0 && memcmp(&col, &old, sizeof(col)) == 0));
	if (r >= 0 && in_has_col) {
		V_CHECK("html: reports the pairs given (the terminator is counted when fewer than four pairs are given)", r == n || (n < 8 && r == n + 1));
		V_CHECK("html: red, green, blue as parsed (missing pairs: 0)", col.red == (n >= 2 ? in_vals[0] : 0) && col.green == (n >= 4 ? in_vals[1] : 0) && col.blue == (n >= 6 ? in_vals[2] : 0));
		V_CHECK("html: alpha as parsed, opaque when not given", col.alpha == (n >= 8 ? in_vals[3] : 255));
	}
	V_COVER("alpha given and not opaque", r == 8 && in_has_col && in_vals[3] != 255);
	V_CANARY();
}
#else
void harness(void)
{
	IN(int, in_p); IN(int, in_null); IN(int, in_mask); IN(int, in_empty);
	IN(float, in_f); IN(double, in_d); IN(uint8_t, in_y); IN(int32_t, in_i);
	line_t li, old; uint8_t in_pre[sizeof(line_t)]; MPT_STRUCT(color) in_col; int r, changed_other = 0; size_t k; V_FILL(in_pre);
	float *fp = 0; uint8_t *bp = 0; size_t off, len;
	H_CTYPE_INIT();
	V_REQ(in_p >= 0 && in_p < 9);
	memcpy(&li, in_pre, sizeof(li)); old = li;
	h_src.c._vptr = &h_src_vptr; h_src.asked = 0; h_src.empty = in_empty != 0;
	h_src.offer_f = in_mask & 1; h_src.offer_d = in_mask & 2; h_src.offer_y = in_mask & 4; h_src.offer_i = in_mask & 8; h_src.offer_s = 0; h_src.offer_col = in_mask & 32;
	h_src.f = in_f; h_src.d = in_d; h_src.y = in_y; h_src.i = in_i; h_src.col = in_col; h_src.s = 0;
	r = mpt_line_set(&li, NAMES[in_p], in_null ? 0 : &h_src.c);
	switch (in_p) {
	  case 0: fp = &li.from.x; break; case 1: fp = &li.to.x; break; case 2: fp = &li.from.y; break; case 3: fp = &li.to.y; break;
	  case 5: bp = &li.attr.width; break; case 6: bp = &li.attr.style; break; case 7: bp = &li.attr.symbol; break; case 8: bp = &li.attr.size; break;
	  default: break;
	}
	off = fp ? (size_t) ((uint8_t *) fp - (uint8_t *) &li) : (bp ? (size_t) (bp - (uint8_t *) &li) : MPT_offset(line, color));
	len = fp ? sizeof(float) : (bp ? 1 : sizeof(li.color));
	/* frame: every byte outside the selected property's field is unchanged */
	for (k = 0; k < sizeof(li); k++) if ((k < off || k >= off + len) && ((uint8_t *) &li)[k] != ((uint8_t *) &old)[k]) changed_other = 1;
	V_CHECK("set: no other property of the object changes", !changed_other);
	V_CHECK("set: a refused value leaves the object unchanged", IMP(r < 0, memcmp(&li, &old, sizeof(li)) == 0));
	if (fp) {
		V_CHECK("set(position): reset restores 0", IMP(in_null, r >= 0 && fbits(*fp) == fbits(0.0f)));
		V_CHECK("set(position): a float value is stored as given", IMP(!in_null && h_src.offer_f && !in_empty, r >= 0 && fbits(*fp) == fbits(in_f)));
		V_CHECK("set(position): a source without a numeric value is refused", IMP(!in_null && !h_src.offer_f && !h_src.offer_d, r < 0));
		V_CHECK("set(position): the empty value is the default", IMP(!in_null && in_empty && (h_src.offer_f || h_src.offer_d), r >= 0 && fbits(*fp) == fbits(0.0f)));
	}
	if (bp) {
		int val = h_src.offer_y ? in_y : in_i;
		V_CHECK("set(attribute): reset restores the documented default", IMP(in_null, r >= 0 && *bp == DEFV[in_p]));
		V_CHECK("set(attribute): a value inside the field's range is stored as given", IMP(!in_null && !in_empty && (h_src.offer_y || h_src.offer_i) && val >= 0 && val <= MAXV[in_p], r >= 0 && *bp == val));
		V_CHECK("set(attribute): a value outside the field's range is refused", IMP(!in_null && !in_empty && (h_src.offer_y || h_src.offer_i) && (val < 0 || val > MAXV[in_p]), r < 0));
		V_CHECK("set(attribute): the empty value is the default", IMP(!in_null && in_empty && (h_src.offer_y || h_src.offer_i), r >= 0 && *bp == DEFV[in_p]));
		V_CHECK("set(attribute): a source without an integer value is refused", IMP(!in_null && !h_src.offer_y && !h_src.offer_i, r < 0));
	}
	if (in_p == 4) {
		V_CHECK("set(color): a colour value is stored as given", IMP(!in_null && h_src.offer_col && !in_empty, r >= 0 && memcmp(&li.color, &in_col, sizeof(in_col)) == 0));
		V_CHECK("set(color): a source without colour or text is refused", IMP(!in_null && !h_src.offer_col, r < 0));
	}
	/* read back through the property table */
	if (r >= 0) {
		MPT_STRUCT(property) pr; int g;
		pr.name = NAMES[in_p]; pr.desc = 0;
		g = mpt_line_get(&li, &pr);
		V_CHECK("get: the property is listed and denotes the field that was set", g >= 0 && pr.val._addr == (uint8_t *) &li + off && pr.name != 0);
		V_CHECK("get: with the field's type", fp ? pr.val._type == 'f' : (bp ? pr.val._type == 'y' : pr.val._type == (MPT_TYPE(type)) mpt_color_typeid()));
	}
	V_COVER("attribute accepted", bp && r >= 0 && !in_null && !in_empty);
	V_COVER("attribute refused for range", bp && r < 0 && (h_src.offer_y || h_src.offer_i));
	V_COVER("position from a double source", fp && r >= 0 && !h_src.offer_f && h_src.offer_d);
	V_COVER("color set", in_p == 4 && r >= 0 && !in_null);
	V_CANARY();
}
#endif
