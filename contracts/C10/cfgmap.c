/* C10 unit config.map (bounded): the node tree as a map path -> value.  Two assignments with symbolic
 * paths (<= NS characters over {'.', 'a', 'b'}) and distinct values on an initially empty tree, then both
 * paths and a third one are queried: a path reads the value most recently assigned to exactly that path,
 * an assignment to a different path does not alter it, an unassigned path is absent or an implied parent
 * without value.  Values are tracked stub metatypes (mpt_meta_new / mpt_meta_set are stubbed: value
 * fidelity of the metatype itself is not the subject here). */
#include "verif.h"
#include <errno.h>
#include <sys/uio.h>
#include "types.h"
#include "meta.h"
#include "node.h"
#include "config.h"
#ifndef NS
# define NS 5
#endif
typedef MPT_STRUCT(node) node_t;

struct h_node { node_t n; char extra[8]; };
node_t *mpt_node_new(size_t len)
{
	struct h_node *h = malloc(sizeof(struct h_node));
	(void) len;
	if (!h) return 0;
	h->n._meta = 0; h->n.next = h->n.prev = h->n.parent = h->n.children = 0;
	mpt_identifier_init(&h->n.ident, sizeof(struct h_node) - MPT_offset(node, ident));
	return &h->n;
}
node_t *h_gnode_pos3(const node_t *first, int pos, const node_t *unused) { (void) unused; return mpt_gnode_pos(first, pos); }

/* value stubs: M[k] stands for "the value k" */
static struct { MPT_INTERFACE(metatype) mt; int refs; } M[3];
static int h_mconv(MPT_INTERFACE(convertable) *c, MPT_TYPE(type) t, void *d) { (void) c; (void) t; (void) d; return MPT_ERROR(BadType); }
static void h_munref(MPT_INTERFACE(metatype) *m) { if (m == &M[0].mt) M[0].refs--; else if (m == &M[1].mt) M[1].refs--; else M[2].refs--; }
static uintptr_t h_maddref(MPT_INTERFACE(metatype) *m) { (void) m; return 0; }
static MPT_INTERFACE(metatype) *h_mclone(const MPT_INTERFACE(metatype) *m) { (void) m; return 0; }
static const MPT_INTERFACE_VPTR(metatype) h_mvptr = { { h_mconv }, h_munref, h_maddref, h_mclone };
MPT_INTERFACE(metatype) *mpt_meta_new(const MPT_STRUCT(value) *val) { int k = *(const int *) val->_addr; M[k].mt._vptr = &h_mvptr; M[k].refs++; return &M[k].mt; }
int mpt_meta_set(MPT_INTERFACE(metatype) **mptr, const MPT_STRUCT(value) *val)
{
	MPT_INTERFACE(metatype) *old = *mptr;
	*mptr = val ? mpt_meta_new(val) : 0;
	if (old) old->_vptr->unref(old);
	return 0;
}

static int same_path(const char *a, size_t la, const char *b, size_t lb) { size_t i; if (la != lb) return 0; for (i = 0; i < NS; i++) if (i < la && a[i] != b[i]) return 0; return 1; }
/* exact lookup: the node registered for exactly this path, or none */
static node_t *lookup(node_t *root, const char *s)
{
	MPT_STRUCT(path) p = MPT_PATH_INIT; node_t *n;
	mpt_path_set(&p, s, -1);
	n = mpt_node_query(root, &p);
	return (n && !p.len) ? n : 0;
}

void harness(void)
{
	char in_p1[NS + 1], in_p2[NS + 1], in_p3[NS + 1]; IN(size_t, in_l1); IN(size_t, in_l2); IN(size_t, in_l3); V_FILL(in_p1); V_FILL(in_p2); V_FILL(in_p3);
	MPT_STRUCT(path) p1 = MPT_PATH_INIT, p2 = MPT_PATH_INIT; MPT_STRUCT(value) v1, v2; int k1 = 1, k2 = 2; size_t i;
	node_t *root = 0, *n1, *n2, *q1, *q2, *q3;
	/* the three paths are per-unit constants (CFG_P1/2/3): with symbolic path strings the node structure becomes
	 * symbolic and the query exhausts the solver (measured); one unit per path relation instead */
	{ const char *c1 = CFG_P1, *c2 = CFG_P2, *c3 = CFG_P3;
	  in_l1 = strlen(c1); in_l2 = strlen(c2); in_l3 = strlen(c3);
	  for (i = 0; i < NS; i++) { in_p1[i] = i < in_l1 ? c1[i] : 0; in_p2[i] = i < in_l2 ? c2[i] : 0; in_p3[i] = i < in_l3 ? c3[i] : 0; } }
	in_p1[in_l1] = 0; in_p2[in_l2] = 0; in_p3[in_l3] = 0;
	v1._addr = &k1; v1._type = 'i'; v2._addr = &k2; v2._type = 'i';
	mpt_path_set(&p1, in_p1, -1); mpt_path_set(&p2, in_p2, -1);

	n1 = mpt_node_assign(&root, &p1, &v1);
	V_CHECK("assign: first assignment creates the path", n1 != 0 && root != 0 && n1->_meta == &M[1].mt);
	n2 = mpt_node_assign(&root, &p2, &v2);
	V_CHECK("assign: second assignment succeeds", n2 != 0 && n2->_meta == &M[2].mt);
	q1 = lookup(root, in_p1); q2 = lookup(root, in_p2); q3 = lookup(root, in_p3);
	V_CHECK("query: a path reads the value most recently assigned to exactly that path", q2 == n2 && q2->_meta == &M[2].mt);
	if (same_path(in_p1, in_l1, in_p2, in_l2)) {
		V_CHECK("assign: re-assignment replaces the value in place, the old value is released once", n1 == n2 && M[1].refs == 0 && M[2].refs == 1);
	} else {
		V_CHECK("assign: an assignment to a different path does not alter the first value", q1 == n1 && q1->_meta == &M[1].mt && M[1].refs == 1 && M[2].refs == 1);
	}
	V_CHECK("query: a path never assigned holds no value (absent, or a parent implied by a longer path)", IMP(!same_path(in_p3, in_l3, in_p1, in_l1) && !same_path(in_p3, in_l3, in_p2, in_l2), q3 == 0 || q3->_meta == 0));
	V_COVER("scenario reached", n1 != 0 && n2 != 0);
	V_CANARY();
}
