/* C10 unit path.split (bounded): splitting a path string into elements and walking it element by element
 * visits exactly the separator-delimited components: mpt_path_set followed by repeated mpt_path_next on
 * every string of <= NS characters (every placement of separators, empty elements included), and
 * mpt_path_last delivers the last component. */
#include "verif.h"
#include <sys/uio.h>
#include "types.h"
#include "config.h"
#ifndef NS
# define NS 6
#endif

void harness(void)
{
	char in_str[NS + 1]; IN(size_t, in_n); IN(int, in_use_last); V_FILL(in_str);
	MPT_STRUCT(path) p = MPT_PATH_INIT; size_t i, start = 0, comps = 1, visited = 0; int r;
	V_REQ(in_n <= NS);
	for (i = 0; i < NS; i++) { V_REQ(IMP(i < in_n, in_str[i] == '.' || in_str[i] == 'a' || in_str[i] == 'b')); }
	in_str[in_n] = 0;
	for (i = 0; i < NS; i++) if (i < in_n && in_str[i] == '.') comps++;
	r = mpt_path_set(&p, in_str, -1);
	V_CHECK("set: reports the element count, covers the whole string", (size_t) r == comps && p.base == in_str && p.off == 0 && p.len == in_n + 1);
	if (in_use_last) {
		size_t ls = in_n, ll;
		while (ls > 0 && in_str[ls - 1] != '.') ls--;
		ll = in_n - ls;
		r = mpt_path_last(&p);
		V_CHECK("last: the component behind the last separator", r >= 0 && (size_t) r == ll && p.off == ls);
		V_COVER("last of several", comps >= 3 && ll >= 1);
	} else {
		while (visited < NS + 2) {
			size_t end = start, off = p.off;
			r = mpt_path_next(&p);
			if (r < 0) break;
			while (end < in_n && in_str[end] != '.') end++;
			V_CHECK("next: the element starts where the previous separator ended", off == start);
			V_CHECK("next: its length runs to the next separator or the end", (size_t) r == end - start);
			V_CHECK("next: the walk stays inside the string", p.off + p.len == in_n + 1 || p.len == 0);
			start = end + 1; visited++;
		}
		V_CHECK("walk: visits exactly the separator-delimited components, then reports the end", visited == comps && r == MPT_ERROR(MissingData));
		V_COVER("empty element in the middle", comps >= 3 && in_n >= 3 && in_str[1] == '.' && in_str[2] == '.');
		V_COVER("single element", comps == 1 && in_n > 0);
	}
	V_CANARY();
}
