/* C10 unit config.remove (bounded): the remove operation of the global configuration (static configRemove in
 * config_global.c, compiled into this unit) over the map view.  The global tree is built by two real assignments
 * (CFG_P1 := 1, CFG_P2 := 2), then CFG_RM is removed: removing a path that was never assigned reports 0 and
 * leaves every other path and its value untouched; removing an assigned path reports 1, that path (and what lies
 * below it) is absent afterwards and the other path keeps its value.  mpt_node_new / mpt_meta_new / mpt_meta_set
 * are the stand-ins of config.map. */
#include "verif.h"
#include <errno.h>
#include <sys/uio.h>
#include "types.h"
#include "meta.h"
#include "node.h"
#include "config.h"
typedef MPT_STRUCT(node) node_t;

struct h_node { node_t n; char extra[8]; };
node_t *mpt_node_new(size_t len)
{
	struct h_node *h = malloc(sizeof(struct h_node));
	(void) len;
	if (!h) return 0;
	h->n._meta = 0; h->n.next = h->n.prev = h->n.parent = h->n.children = 0;
	mpt_identifier_init(&h->n.ident, sizeof(struct h_node) - MPT_offset(node, ident));
	return &h->n;
}
node_t *h_gnode_pos3(const node_t *first, int pos, const node_t *unused) { (void) unused; return mpt_gnode_pos(first, pos); }

static struct { MPT_INTERFACE(metatype) mt; int refs; } M[3];
static int h_mconv(MPT_INTERFACE(convertable) *c, MPT_TYPE(type) t, void *d) { (void) c; (void) t; (void) d; return MPT_ERROR(BadType); }
static void h_munref(MPT_INTERFACE(metatype) *m) { if (m == &M[0].mt) M[0].refs--; else if (m == &M[1].mt) M[1].refs--; else M[2].refs--; }
static uintptr_t h_maddref(MPT_INTERFACE(metatype) *m) { (void) m; return 0; }
static MPT_INTERFACE(metatype) *h_mclone(const MPT_INTERFACE(metatype) *m) { (void) m; return 0; }
static const MPT_INTERFACE_VPTR(metatype) h_mvptr = { { h_mconv }, h_munref, h_maddref, h_mclone };
MPT_INTERFACE(metatype) *mpt_meta_new(const MPT_STRUCT(value) *val) { int k = *(const int *) val->_addr; M[k].mt._vptr = &h_mvptr; M[k].refs++; return &M[k].mt; }
int mpt_meta_set(MPT_INTERFACE(metatype) **mptr, const MPT_STRUCT(value) *val)
{
	MPT_INTERFACE(metatype) *old = *mptr;
	*mptr = val ? mpt_meta_new(val) : 0;
	if (old) old->_vptr->unref(old);
	return 0;
}
int atexit(void (*f)(void)) { (void) f; return 0; }

#include "mptcore/config/config_global.c"

static node_t *lookup(node_t *root, const char *s)
{
	MPT_STRUCT(path) p = MPT_PATH_INIT; node_t *n;
	mpt_path_set(&p, s, -1);
	n = mpt_node_query(root, &p);
	return (n && !p.len) ? n : 0;
}

void harness(void)
{
	static const MPT_INTERFACE_VPTR(config) h_cfg = { configQuery, configAssign, configRemove };
	MPT_STRUCT(configRoot) c;
	MPT_STRUCT(path) p1 = MPT_PATH_INIT, p2 = MPT_PATH_INIT, pr = MPT_PATH_INIT; MPT_STRUCT(value) v1, v2; int k1 = 1, k2 = 2, r;
	node_t *n1, *n2, *q1, *q2, *qr;
	{ MPT_STRUCT(path) pinit = MPT_PATH_INIT; c.base = pinit; } c._cfg._vptr = &h_cfg; c._mt._vptr = 0;
	v1._addr = &k1; v1._type = 'i'; v2._addr = &k2; v2._type = 'i';
	mpt_path_set(&p1, CFG_P1, -1); mpt_path_set(&p2, CFG_P2, -1); mpt_path_set(&pr, CFG_RM, -1);
#ifdef CFG_P2_FIRST
	n2 = mpt_node_assign(&nodeGlobal, &p2, &v2);
	n1 = mpt_node_assign(&nodeGlobal, &p1, &v1);
#else
	n1 = mpt_node_assign(&nodeGlobal, &p1, &v1);
	n2 = mpt_node_assign(&nodeGlobal, &p2, &v2);
#endif
	V_REQ(n1 != 0 && n2 != 0 && n1 != n2);
	r = configRemove(&c._cfg, &pr);
	q1 = lookup(nodeGlobal, CFG_P1); q2 = lookup(nodeGlobal, CFG_P2); qr = lookup(nodeGlobal, CFG_RM);
#if CFG_RM_ASSIGNED == 0
	V_CHECK("remove: a path that was never assigned reports 0", r == 0);
	V_CHECK("remove: removing an unassigned path leaves the assigned paths and their values untouched", q1 == n1 && q2 == n2 && n1->_meta == &M[1].mt && n2->_meta == &M[2].mt && M[1].refs == 1 && M[2].refs == 1);
#else
	V_CHECK("remove: an assigned path reports 1", r == 1);
	V_CHECK("remove: the removed path is absent afterwards, its value released once", qr == 0 && q2 == 0 && M[2].refs == 0);
	V_CHECK("remove: the other path keeps its value", CFG_P1_BELOW ? q1 == 0 && M[1].refs == 0 : (q1 == n1 && n1->_meta == &M[1].mt && M[1].refs == 1));
#endif
	V_CHECK("remove: the remaining top level is well linked (its head has no predecessor)", nodeGlobal == 0 || nodeGlobal->prev == 0);
	V_COVER("scenario reached", n1 != 0 && n2 != 0);
	V_CANARY();
}
