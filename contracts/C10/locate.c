/* C10 / C16 unit locate.width: mpt_node_locate compares a path element with a node name of ANY length (the name length
 * field is 16 bit, names beyond the inline capacity live in external storage): a node is found under exactly its own
 * name - also when the name is longer than 255 bytes - and not under a name that differs in its last character.
 * Variant BACKWARD: the same through the backward search from a successor node.
 * Bounded: names of <= LMAX identical characters (the content is irrelevant to the length handling). */
#include "verif.h"
#include <errno.h>
#include <sys/uio.h>
#include "types.h"
#include "node.h"
#ifndef LMAX
# define LMAX 300
#endif
static char h_name[LMAX + 1], h_query[LMAX + 1];
void harness(void)
{
	IN(size_t, in_len); IN(int, in_same); IN(int, in_pos);
	MPT_STRUCT(node) n = MPT_NODE_INIT; MPT_STRUCT(node) *r; size_t i;
	V_REQ(in_len >= 13 && in_len <= LMAX);                     /* longer than the inline capacity: external storage */
	V_REQ(in_pos == 1 || in_pos == 0 || in_pos == -1);
	for (i = 0; i < LMAX; i++) { h_name[i] = 'a'; h_query[i] = 'a'; }
	h_name[in_len] = 0; h_query[in_len] = 0;
	if (!in_same) h_query[in_len - 1] = 'b';
	n.ident._len = (uint16_t) (in_len + 1); n.ident._charset = MPT_CHARSET(UTF8); n.ident._base = h_name;
#ifdef BACKWARD
	/* the named node has an unnamed successor; the search starts there and runs backwards ("previous" / "last" lookup) */
	{ MPT_STRUCT(node) m = MPT_NODE_INIT;
	  V_REQ(in_pos == 0 || in_pos == -1);
	  n.next = &m; m.prev = &n;
	  r = mpt_node_locate(&m, in_pos, h_query, (int) in_len, -1);
	  V_CHECK("locate: the backward search finds a predecessor under its own name (external storage)", IMP(in_same, r == &n));
	  V_CHECK("locate: backward search, not under a different name of the same length", IMP(!in_same, r == 0));
	  V_COVER("predecessor found", r == &n);
	}
#else
	r = mpt_node_locate(&n, in_pos, h_query, (int) in_len, -1);
	V_CHECK("locate: a node is found under its own name at every length", IMP(in_same && in_pos != -1, r == &n));
	V_CHECK("locate: not under a different name of the same length", IMP(!in_same, r == 0));
	V_COVER("name longer than 255 bytes found", r == &n && in_len > 255);
#endif
	V_CANARY();
}
