/* C10 unit item.query: the flat configuration store (array of config_item) as a path-to-value map on lookup: an item is
 * found exactly when an element IN USE carries the queried name - storage behind the used part of the buffer is not
 * part of the map, whatever bytes it holds ("a path never assigned holds no value").  Buffer of two item slots with
 * symbolic fill level; the element traits are an opaque token (stand-in for mpt_config_item_traits). */
#include "verif.h"
#include <errno.h>
#include <sys/uio.h>
#include "types.h"
#include "array.h"
#include "config.h"
typedef MPT_STRUCT(config_item) item_t;
static const MPT_STRUCT(type_traits) h_item_traits;
const MPT_STRUCT(type_traits) *mpt_config_item_traits(void) { return &h_item_traits; }
static struct { MPT_STRUCT(buffer) b; item_t it[2]; } h_buf;
#ifdef UNIT_RESERVE
/* mpt_config_item_reserve on a store of two slots, the first one free (an element that was removed), the second in use:
 * an assignment to the name in use gets that element (no duplicate in front of it); any other name re-uses the free
 * slot and leaves the element in use alone. */
MPT_STRUCT(buffer) *_mpt_buffer_alloc(size_t len, int flags) { (void) len; (void) flags; return 0; }
void *mpt_array_insert(MPT_STRUCT(array) *a, size_t pos, size_t len) { (void) a; (void) pos; (void) len; return 0; }
ssize_t mpt_buffer_cut(MPT_STRUCT(buffer) *b, size_t off, size_t len) { (void) b; (void) off; (void) len; return 0; }
size_t mpt_array_reduce(MPT_STRUCT(array) *a) { (void) a; return 0; }
void harness(void)
{
	IN(char, in_n1); IN(char, in_q);
	_MPT_UARRAY_TYPE(item_t) arr; MPT_STRUCT(path) path = MPT_PATH_INIT; item_t *r; char q[2]; int i;
	V_REQ(in_n1 > ' ' && in_q > ' ' && in_n1 != '.' && in_q != '.');
	for (i = 0; i < 2; i++) {
		item_t *it = &h_buf.it[i];
		it->elements._buf = 0; it->value = 0;
		it->identifier._len = i ? 2 : 0; it->identifier._charset = MPT_CHARSET(UTF8); it->identifier._max = 4 + sizeof(char *);
		it->identifier._val[0] = i ? in_n1 : 0; it->identifier._val[1] = 0; it->identifier._base = 0;
	}
	h_buf.b._content_traits = &h_item_traits; *((size_t *) &h_buf.b._size) = sizeof(h_buf.it); h_buf.b._used = 2 * sizeof(item_t);
	arr._buf = &h_buf.b;
	q[0] = in_q; q[1] = 0;
	path.base = q; path.off = 0; path.len = 2; path.sep = '.'; path.assign = 0;
	r = mpt_config_item_reserve(&arr, &path);
	V_CHECK("reserve: the element already carrying the name is the one assigned to, a free slot in front of it stays free", IMP(in_q == in_n1, r == &h_buf.it[1] && h_buf.it[0].identifier._len == 0));
	V_CHECK("reserve: a new name re-uses the free slot and leaves the element in use alone", IMP(in_q != in_n1, r == &h_buf.it[0] && h_buf.it[0].identifier._len == 2 && h_buf.it[0].identifier._val[0] == in_q && h_buf.it[1].identifier._len == 2 && h_buf.it[1].identifier._val[0] == in_n1));
	V_COVER("existing element behind a free slot", r == &h_buf.it[1]);
	V_COVER("free slot re-used", r == &h_buf.it[0]);
	V_CANARY();
}
#else
void harness(void)
{
	const size_t in_used_items = USED;      /* per-unit constant: used / sizeof(item) on a symbolic fill level is a divider circuit the SAT back end does not finish (measured: > 600 s) */
	IN(char, in_n0); IN(char, in_n1); IN(char, in_q);
	_MPT_UARRAY_TYPE(item_t) arr; MPT_STRUCT(path) path = MPT_PATH_INIT; item_t *r; char q[2]; int i;
	V_REQ(in_used_items <= 2 && in_n0 > ' ' && in_n1 > ' ' && in_q > ' ' && in_n0 != '.' && in_n1 != '.' && in_q != '.' && in_n0 != in_n1);
	for (i = 0; i < 2; i++) {
		item_t *it = &h_buf.it[i];
		it->elements._buf = 0; it->value = 0;
		it->identifier._len = 2; it->identifier._charset = MPT_CHARSET(UTF8); it->identifier._max = 4 + sizeof(char *);
		it->identifier._val[0] = i ? in_n1 : in_n0; it->identifier._val[1] = 0; it->identifier._base = 0;
	}
	h_buf.b._content_traits = &h_item_traits; *((size_t *) &h_buf.b._size) = sizeof(h_buf.it); h_buf.b._used = in_used_items * sizeof(item_t);
	arr._buf = &h_buf.b;
	q[0] = in_q; q[1] = 0;
	path.base = q; path.off = 0; path.len = 2 /* element + the trailing assign position, as mpt_path_set builds it */; path.sep = '.'; path.assign = 0;
	r = mpt_config_item_query(&arr, &path);
	V_CHECK("query: an element in use is found under its name", IMP(in_used_items >= 1 && in_q == in_n0, r == &h_buf.it[0]) && IMP(in_used_items >= 2 && in_q == in_n1, r == &h_buf.it[1]));
	V_CHECK("query: a name no element in use carries holds nothing (storage behind the used part is not part of the map)", IMP(!(in_used_items >= 1 && in_q == in_n0) && !(in_used_items >= 2 && in_q == in_n1), r == 0));
#if USED == 2
	V_COVER("second element found", r == &h_buf.it[1]);
#else
	V_COVER("name only present behind the used part", in_q == in_n1 && r == 0);
#endif
	V_CANARY();
}
#endif
