/* C16 units ident.*: identifier storage in an object of ISIZE bytes (16..256); content lengths are
 * symbolic across the inline capacity; previous content inline or external. */
#include "verif.h"
#include <sys/uio.h>
#include <errno.h>
#include "mptcore/misc/identifier.c"

#ifndef ISIZE
# define ISIZE 16
#endif
#ifndef LCAP
# define LCAP 40
#endif
typedef MPT_STRUCT(identifier) ident_t;
#define IMAX(sz_)  ((sz_) - 4 > 252 ? 252 : (sz_) - 4)
#define IDATA(id_) ((const uint8_t *) ((id_)->_len > (id_)->_max ? (const void *) (id_)->_base : (const void *) (id_)->_val))

/* an identifier object of exactly `size` bytes holding arbitrary previous content of length plen
 * (inline when it fits, otherwise in its own allocation) */
static ident_t *make_ident(size_t size, uint16_t plen, uint8_t charset)
{
	ident_t *id = malloc(size);
	__CPROVER_assume(id != 0);
	mpt_identifier_init(id, size);
	if (plen > id->_max) {
		char *ext = malloc(plen);
		__CPROVER_assume(ext != 0);
		id->_base = ext;
	} else {
		uint8_t fill[252]; size_t i;
		for (i = 0; i < plen; i++) id->_val[i] = fill[i];
	}
	id->_len = plen; id->_charset = charset;
	return id;
}
static void drop_ident(ident_t *id)
{
	if (id->_len > id->_max) free(id->_base);
	free(id);
}

void harness(void)
{
	IN(uint16_t, in_plen); IN(uint8_t, in_pcs); IN(size_t, in_k);
	ident_t *id;
	V_REQ(in_plen <= LCAP);
	id = make_ident(ISIZE, in_plen, in_pcs);
	V_CHECK("init: inline capacity derives from the storage size", id->_max == IMAX(ISIZE));
#if defined(UNIT_SET)
	{
		IN(int, in_len); IN(int, in_has_name);
		char *name = 0; void *ret; size_t n;
		V_REQ(in_len >= -1 && in_len <= LCAP);
		if (in_has_name) { name = malloc(LCAP + 1); __CPROVER_assume(name != 0); name[LCAP] = 0; }
		V_REQ(IMP(in_len < 0, name != 0));
		ret = mpt_identifier_set(id, name, in_len);
		n = in_len < 0 ? strlen(name) : (size_t) in_len;
		V_CHECK("set: every length within the limit is accepted", ret != 0);
		V_CHECK("set: reads back through the data accessor", ret == mpt_identifier_data(id) && ret == IDATA(id));
		if (name) {
			V_CHECK("set: length is the name plus terminator", id->_len == n + 1 && id->_charset == MPT_CHARSET(UTF8));
			V_CHECK("set: reads back as exactly the given bytes", IMP(in_k < n, IDATA(id)[in_k] == (uint8_t) name[in_k]) && IDATA(id)[n] == 0);
			V_CHECK("set: compares equal to what was set", mpt_identifier_compare(id, name, in_len) == 0);
			V_CHECK("set: storage mode follows the length", (id->_len > id->_max) == (n + 1 > IMAX(ISIZE)));
		} else {
			V_CHECK("set: no name => that many zero bytes (0: cleared)", id->_len == n && id->_charset == 0 && IMP(in_k < n, IDATA(id)[in_k] == 0));
		}
		V_COVER("external -> inline", in_plen > IMAX(ISIZE) && id->_len <= id->_max && id->_len > 0);
		V_COVER("inline -> external", in_plen <= IMAX(ISIZE) && in_plen > 0 && id->_len > id->_max);
		V_COVER("external -> external", in_plen > IMAX(ISIZE) && id->_len > id->_max);
		V_COVER("strlen path", in_len < 0 && n > 2);
		if (name) free(name);
	}
#elif defined(UNIT_COPY)
	{
		IN(uint16_t, in_slen); IN(uint8_t, in_scs); IN(int, in_mode);
		ident_t *src; const uint8_t *sdata; uint8_t sk = 0; char *sbase; void *ret;
		V_REQ(in_slen <= LCAP);
		src = make_ident(ISIZE2, in_slen, in_scs);
		sdata = IDATA(src); sbase = src->_base;
		if (in_k < in_slen) sk = sdata[in_k];
		ret = mpt_identifier_copy(id, in_mode == 0 ? 0 : (in_mode == 1 ? id : src));
		if (in_mode == 0) {
			V_CHECK("copy: from nothing clears the destination", ret != 0 && id->_len == 0);
		} else if (in_mode == 1) {
			V_CHECK("copy: self copy changes nothing", ret == IDATA(id) && id->_len == in_plen && id->_charset == in_pcs);
		} else {
			V_CHECK("copy: accepted", ret != 0 && ret == IDATA(id));
			V_CHECK("copy: equal length and charset", id->_len == in_slen && id->_charset == in_scs);
			V_CHECK("copy: equal bytes", IMP(in_k < in_slen, IDATA(id)[in_k] == sk));
			V_CHECK("copy: compares equal", mpt_identifier_inequal(id, src) == 0);
			V_CHECK("copy: storage mode follows the length", (id->_len > id->_max) == (in_slen > IMAX(ISIZE)));
			V_CHECK("copy: own storage, never the source's", IMP(in_slen > 0, (const void *) IDATA(id) != (const void *) sdata));
		}
		V_CHECK("copy: source untouched", src->_len == in_slen && src->_charset == in_scs && src->_max == IMAX(ISIZE2) && IDATA(src) == sdata && IMP(in_slen > IMAX(ISIZE2), src->_base == sbase) && IMP(in_k < in_slen, sdata[in_k] == sk));
		V_COVER("external -> inline", in_mode == 2 && in_plen > IMAX(ISIZE) && in_slen <= IMAX(ISIZE) && in_slen > 4);
		V_COVER("inline -> external", in_mode == 2 && in_plen <= IMAX(ISIZE) && in_slen > IMAX(ISIZE));
		V_COVER("external -> external", in_mode == 2 && in_plen > IMAX(ISIZE) && in_slen > IMAX(ISIZE));
		drop_ident(src);
	}
#elif defined(UNIT_COMPARE)
	{
		/* comparison reports equality exactly for equal content */
		IN(int, in_nlen); char *name; int r, eq = 1; size_t i;
		V_REQ(in_nlen >= 0 && in_nlen <= LCAP && in_pcs == MPT_CHARSET(UTF8));
		name = malloc(LCAP + 1); __CPROVER_assume(name != 0);
		r = mpt_identifier_compare(id, name, in_nlen);
		if (in_plen == 0) eq = (in_nlen == 0);
		else if ((size_t) in_nlen + 1 != in_plen) eq = 0;
		else {
			for (i = 0; i < (size_t) in_nlen; i++) if (IDATA(id)[i] != (uint8_t) name[i]) eq = 0;
			if (IDATA(id)[in_nlen] != 0) eq = 0;
		}
		V_CHECK("compare: 0 exactly for equal content and length", (r == 0) == (eq != 0) || (in_nlen == 0 && in_plen == 1));
		V_COVER("equal external names", r == 0 && in_plen > IMAX(ISIZE));
		V_COVER("differ in last byte", r > 0 && in_nlen > 1);
		free(name);
	}
#elif defined(UNIT_TRAITS)
	{
		/* identifiers as elements of a typed buffer (shared with C05): copy construction owns its own storage */
		const MPT_STRUCT(type_traits) *tr = mpt_identifier_traits();
		ident_t el; IN(int, in_copy); int r;
		V_CHECK("traits: element is one identifier", tr->size == sizeof(ident_t) && tr->init && tr->fini);
		r = tr->init(&el, in_copy ? id : 0);
		V_CHECK("element init: succeeds", r >= 0);
		V_CHECK("element init: default is the empty name", IMP(!in_copy, el._len == 0 && el._max == IMAX(sizeof(ident_t))));
		V_CHECK("element init: copy is equal and owns its storage", IMP(in_copy, el._len == in_plen && el._charset == in_pcs && IMP(in_k < in_plen, IDATA(&el)[in_k] == IDATA(id)[in_k]) && IMP(in_plen > 0, IDATA(&el) != IDATA(id))));
		tr->fini(&el);
		V_COVER("copied long name", in_copy && in_plen > IMAX(sizeof(ident_t)));
	}
#endif
	drop_ident(id);
	V_CANARY();
}
