/* C13 unit qpop: mpt_qpop removes `len` bytes from the END of the deque */
#include "queue_spec.h"
Q_GHOST_DEFS

/* popped bytes are view[g_len-n .. g_len); ghost g_k2 = g_len - n + j for an arbitrary j */
#define POST_mpt_qpop(X, q_, n_, d_, r_) \
	X("pop.refuse-too-long: more than stored is refused, nothing changes", IMP((n_) > g_len, (r_) == 0 && Q_SAME(q_))) \
	X("pop.refusal-unchanged", IMP((r_) == 0, Q_SAME(q_))) \
	X("pop.must-succeed: with a destination every request within the content succeeds", IMP((n_) <= g_len && (d_) != 0, (r_) != 0)) \
	X("pop.struct", IMP((r_) != 0, (q_)->len == g_len - (n_) && (q_)->off == g_off && Q_GEOM(q_))) \
	X("pop.remaining-view", IMP((r_) != 0 && g_k1 < g_len - (n_), QV(q_, g_k1) == g_v1)) \
	X("pop.copied-bytes", IMP((r_) != 0 && (d_) && g_k2 >= g_len - (n_) && g_k2 < g_len, ((const uint8_t *) (d_))[g_k2 - (g_len - (n_))] == g_v2)) \
	X("pop.returned-address", IMP((r_) != 0 && g_k2 == g_len - (n_) && (n_) > 0, *((const uint8_t *) (r_)) == g_v2)) \
	X("pop.storage-untouched", Q_PHYS(q_))

void *mpt_qpop(queue_t *queue, size_t len, void *data)
__CPROVER_requires(Q_WF(queue) && Q_BIND(queue))
/* excluded: zero-length transfer on an unallocated queue (memcpy(dst, NULL, 0), no byte is accessed) */
__CPROVER_requires(IMP(len == 0, queue->base != 0))
__CPROVER_assigns(queue->len, V_ERRNO; data: __CPROVER_object_upto(data, len))
POST_mpt_qpop(C_ENSURES, queue, len, data, __CPROVER_return_value)
;

void harness(void)
{
	Q_BUILD(q, st);
	IN(size_t, in_n); IN(int, in_has_dst);
	uint8_t *dst = 0;
	void *ret;
	V_REQ(in_n <= CAP && IMP(in_n == 0, in_max != 0));
	if (in_has_dst) { IN_BUF(dst, in_n); }
	ret = mpt_qpop(&q, in_n, dst);
	POST_mpt_qpop(H_ENS, &q, in_n, dst, ret)
	V_COVER("wrapped content popped across both segments", ret != 0 && g_off + g_len > g_max && in_n > g_off + g_len - g_max);
	V_COVER("aligned pop", ret != 0 && g_off + g_len <= g_max && in_n > 0);
	V_COVER("refused", ret == 0);
	V_CANARY();
}
