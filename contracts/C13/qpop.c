/* C13 unit qpop: mpt_qpop removes `len` bytes from the END of the deque */
#include "queue_spec.h"
Q_GHOST_DEFS

/* popped bytes are view[g_len-len .. g_len); ghost g_k2 = g_len - len + j for an arbitrary j */
#define POP_REFUSE_LONG(q, n_, ret)  IMP((n_) > g_len, (ret) == 0 && Q_SAME(q))
#define POP_REFUSED_SAME(q, ret)      IMP((ret) == 0, Q_SAME(q))
#define POP_MUST_SUCCEED(n_, dst, ret) IMP((n_) <= g_len && (dst) != 0, (ret) != 0)
#define POP_OK_STRUCT(q, n_, ret)    IMP((ret) != 0, (q)->len == g_len - (n_) && (q)->off == g_off && Q_GEOM(q))
#define POP_OK_KEEP(q, n_, ret)      IMP((ret) != 0 && g_k1 < g_len - (n_), QV(q, g_k1) == g_v1)
#define POP_OK_DATA(q, n_, dst, ret) IMP((ret) != 0 && (dst) && g_k2 >= g_len - (n_) && g_k2 < g_len, ((const uint8_t *) (dst))[g_k2 - (g_len - (n_))] == g_v2)
#define POP_OK_PTR(q, n_, ret)       IMP((ret) != 0 && g_k2 == g_len - (n_) && (n_) > 0, *((const uint8_t *) (ret)) == g_v2)
#define POP_STORAGE(q)                IMP(g_p < g_max, ((const uint8_t *) (q)->base)[g_p] == g_vp)

void *mpt_qpop(queue_t *queue, size_t len, void *data)
__CPROVER_requires(Q_WF(queue) && Q_BIND(queue))
/* excluded: zero-length transfer on an unallocated queue (memcpy(dst, NULL, 0), no byte is accessed) */
__CPROVER_requires(IMP(len == 0, queue->base != 0))
__CPROVER_assigns(queue->len, V_ERRNO; data: __CPROVER_object_upto(data, len))
__CPROVER_ensures(POP_REFUSE_LONG(queue, len, __CPROVER_return_value))       /*@case pop.refuse-too-long: more than stored is refused, nothing changes*/
__CPROVER_ensures(POP_REFUSED_SAME(queue, __CPROVER_return_value))           /*@case pop.refusal-unchanged*/
__CPROVER_ensures(POP_MUST_SUCCEED(len, data, __CPROVER_return_value))       /*@case pop.must-succeed: with a destination every request within the content succeeds*/
__CPROVER_ensures(POP_OK_STRUCT(queue, len, __CPROVER_return_value))         /*@case pop.struct*/
__CPROVER_ensures(POP_OK_KEEP(queue, len, __CPROVER_return_value))           /*@case pop.remaining-view*/
__CPROVER_ensures(POP_OK_DATA(queue, len, data, __CPROVER_return_value))     /*@case pop.copied-bytes*/
__CPROVER_ensures(POP_OK_PTR(queue, len, __CPROVER_return_value))            /*@case pop.returned-address*/
__CPROVER_ensures(POP_STORAGE(queue))                                        /*@case pop.storage-untouched*/
;

void harness(void)
{
	Q_BUILD(q, st);
	IN(size_t, in_n); IN(int, in_has_dst);
	uint8_t *dst = 0;
	void *ret;
	V_REQ(in_n <= CAP && IMP(in_n == 0, in_max != 0));
	if (in_has_dst) { IN_BUF(dst, in_n); }
	ret = mpt_qpop(&q, in_n, dst);
	V_ENS("pop.refuse-too-long", POP_REFUSE_LONG(&q, in_n, ret));
	V_ENS("pop.refusal-unchanged", POP_REFUSED_SAME(&q, ret));
	V_ENS("pop.must-succeed", POP_MUST_SUCCEED(in_n, dst, ret));
	V_ENS("pop.struct", POP_OK_STRUCT(&q, in_n, ret));
	V_ENS("pop.remaining-view", POP_OK_KEEP(&q, in_n, ret));
	V_ENS("pop.copied-bytes", POP_OK_DATA(&q, in_n, dst, ret));
	V_ENS("pop.returned-address", POP_OK_PTR(&q, in_n, ret));
	V_ENS("pop.storage-untouched", IMP(g_p < g_max, st[g_p] == g_vp));
	V_COVER("wrapped content popped across both segments", ret != 0 && g_off + g_len > g_max && in_n > g_off + g_len - g_max);
	V_COVER("aligned pop", ret != 0 && g_off + g_len <= g_max && in_n > 0);
	V_COVER("refused", ret == 0);
	V_CANARY();
}
