/* C13 units queue_get / queue_set: read / overwrite view[pos, pos+len) */
#include "queue_spec.h"
Q_GHOST_DEFS
size_t g_j; uint8_t g_dj;

#define POST_mpt_queue_get(X, q_, p_, n_, d_, r_) \
	X("get.refuse-outside", IMP((n_) > 0 && ((p_) > g_len || (n_) > g_len - (p_)), (r_) < 0)) \
	X("get.must-succeed", IMP((p_) <= g_len && (n_) <= g_len - (p_), (r_) >= 0)) \
	X("get.bytes: dst[j] == view[pos+j]", IMP((r_) >= 0 && (d_) && g_k1 >= (p_) && g_k1 - (p_) < (n_) && g_k1 < g_len, ((const uint8_t *) (d_))[g_k1 - (p_)] == g_v1)) \
	X("get.queue-unchanged", Q_SAME(q_))

#define POST_mpt_queue_set(X, q_, p_, n_, d_, r_) \
	X("set.refuse-outside", IMP((n_) > 0 && ((p_) > g_len || (n_) > g_len - (p_)), (r_) < 0 && Q_SAME(q_))) \
	X("set.refusal-unchanged", IMP((r_) < 0, Q_SAME(q_))) \
	X("set.must-succeed", IMP((p_) <= g_len && (n_) <= g_len - (p_), (r_) >= 0)) \
	X("set.struct-unchanged", Q_STRUCT_SAME(q_)) \
	X("set.written: view'[pos+j] == data[j] (zero without data)", IMP((r_) >= 0 && g_j < (n_), QV(q_, (p_) + g_j) == ((d_) ? g_dj : 0))) \
	X("set.others-kept", IMP(g_k1 < g_len && (g_k1 < (p_) || g_k1 - (p_) >= (n_)), QV(q_, g_k1) == g_v1)) \
	X("set.free-space-untouched", IMP(g_p < g_max && (g_p >= g_off ? g_p - g_off : g_p + g_max - g_off) >= g_len && g_off < g_max, ((const uint8_t *) (q_)->base)[g_p] == g_vp))

#ifdef VERIF_NATIVE
# define BINDJ(d_, n_) 1
#else
# define BINDJ(d_, n_) IMP((d_) && g_j < (n_), g_dj == ((const uint8_t *) (d_))[g_j])
#endif

int mpt_queue_get(const queue_t *queue, size_t pos, size_t len, void *data)
__CPROVER_requires(Q_WF(queue) && Q_BIND(queue) && pos <= CAP && len <= CAP)
__CPROVER_assigns(data: __CPROVER_object_upto(data, len))
POST_mpt_queue_get(C_ENSURES, queue, pos, len, data, __CPROVER_return_value)
;
int mpt_queue_set(const queue_t *queue, size_t pos, size_t len, const void *data)
__CPROVER_requires(Q_WF(queue) && Q_BIND(queue) && pos <= CAP && len <= CAP && BINDJ(data, len))
__CPROVER_assigns(queue->base: __CPROVER_object_whole(queue->base))
POST_mpt_queue_set(C_ENSURES, queue, pos, len, data, __CPROVER_return_value)
;

void harness(void)
{
	Q_BUILD(q, st);
	IN(size_t, in_pos); IN(size_t, in_n); IN(int, in_has_buf); IN(size_t, in_j);
	uint8_t *buf = 0;
	int ret;
	V_REQ(in_pos <= CAP && in_n <= CAP);
	if (in_has_buf) { IN_BUF(buf, in_n); }
	g_j = in_j;
#ifdef UNIT_SET
	if (buf && g_j < in_n) g_dj = buf[g_j];
	ret = mpt_queue_set(&q, in_pos, in_n, buf);
	POST_mpt_queue_set(H_ENS, &q, in_pos, in_n, buf, ret)
	V_COVER("zero fill", ret >= 0 && !buf && in_n > 0);
#else
	ret = mpt_queue_get(&q, in_pos, in_n, buf);
	POST_mpt_queue_get(H_ENS, &q, in_pos, in_n, buf, ret)
	V_COVER("probe without destination", ret >= 0 && !buf && in_n > 0);
#endif
	V_COVER("range spans the wrap point", ret >= 0 && buf && in_pos > 0 && g_off + in_pos < g_max && g_off + in_pos + in_n > g_max);
	V_COVER("range entirely in the wrapped segment", ret >= 0 && buf && in_n > 0 && g_off + in_pos > g_max);
	V_COVER("refused", ret < 0);
	V_CANARY();
}
