/* C13 units queue_align / queue_string: re-align the storage so that the content starts at `pos`;
 * the deque view must not change */
#include "queue_spec.h"
Q_GHOST_DEFS

#define POST_mpt_queue_align(X, q_, p_) \
	X("align.struct", (q_)->len == g_len && Q_GEOM(q_) && Q_WF(q_)) \
	X("align.view-unchanged", IMP(g_k1 < g_len, QV(q_, g_k1) == g_v1)) \
	X("align.position", IMP((p_) < g_max && g_len > 0, (q_)->off == (p_))) \
	X("align.refused-unchanged", IMP((p_) > g_max, (q_)->off == g_off))

#define POST_mpt_queue_string(X, q_, r_) \
	X("string.null-iff-full", ((r_) == 0) == (g_len == g_max)) \
	X("string.struct", (q_)->len == g_len && Q_GEOM(q_) && Q_WF(q_)) \
	X("string.view-unchanged", IMP(g_k1 < g_len, QV(q_, g_k1) == g_v1)) \
	X("string.contiguous-content", IMP((r_) != 0 && g_k1 < g_len, ((const uint8_t *) (r_))[g_k1] == g_v1)) \
	X("string.terminated", IMP((r_) != 0, ((const uint8_t *) (r_))[g_len] == 0))

void mpt_queue_align(queue_t *queue, size_t pos);
char *mpt_queue_string(queue_t *queue);

void harness(void)
{
	Q_BUILD_BLK(q, st, blk);
	V_REQ(in_off < in_max || in_max == 0);
#ifdef UNIT_STRING
	{
		char *ret = mpt_queue_string(&q);
		POST_mpt_queue_string(H_ENS, &q, ret)
		V_ENS("string.frame", Q_BLK_OUTSIDE(blk, pad, 0));
		V_COVER("wrapped content made contiguous", ret != 0 && g_off + g_len > g_max);
		V_COVER("no room behind content", ret != 0 && g_off + g_len == g_max && g_len > 0);
		V_COVER("full", ret == 0);
	}
#else
	{
		IN(size_t, in_pos);
#ifndef ALIGN_ANYPOS
		V_REQ(in_pos == 0);   /* quick tier: the position every caller in the library uses; every position in the thorough tier */
#endif
		mpt_queue_align(&q, in_pos);
		POST_mpt_queue_align(H_ENS, &q, in_pos)
		V_ENS("align.frame", Q_BLK_OUTSIDE(blk, pad, 0));
		V_COVER("wrapped content aligned to start", in_pos == 0 && g_off + g_len > g_max);
		V_COVER("contiguous content moved", in_pos != g_off && g_off + g_len <= g_max && in_pos + g_len <= g_max && g_len > 0 && in_pos <= g_max);
#ifdef ALIGN_ANYPOS
		V_COVER("target position makes the content wrap", in_pos < g_max && in_pos + g_len > g_max && g_len > 0);
#endif
	}
#endif
	V_CANARY();
}
