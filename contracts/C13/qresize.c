/* C13 units queue_resize / queue_prepare (bounded): growing and shrinking the storage keeps the deque view;
 * shrinking below the content drops bytes from the FRONT (documented truncation); the struct stays well formed.
 * realloc/free are harness stand-ins over two fixed blocks (new storage = the other block, old bytes copied,
 * the tail arbitrary), because CBMC's realloc model with symbolic sizes exhausts the solver here (measured).
 * Modular: mpt_queue_align and mpt_queue_crop are replaced by their contracts (executable stand-ins below; the
 * contracts themselves are discharged against the real bodies in units queue_align and queue_crop), so that a
 * change inside them is reported there and this unit decides only what resize/prepare add. */
#include "queue_spec.h"
Q_GHOST_DEFS
static uint8_t h_A[CAP + 1], h_B[CAP + 1];
static size_t h_asize; static int h_freed, h_reallocs, h_bad;
void *realloc(void *p, size_t n)
{
	size_t i;
	h_reallocs++;
	if (p && p != (void *) h_A) h_bad = 1;
	if (n > CAP) return 0;
	for (i = 0; i < CAP; i++) if (p && i < n && i < h_asize) h_B[i] = h_A[i];
	return h_B;
}
void free(void *p) { if (p == (void *) h_A) h_freed++; else if (p) h_bad = 1; }

static int h_aligns, h_crops, h_bad_call;
/* contract of mpt_queue_align(q, 0): offset 0 afterwards, length and deque view unchanged, the rest of the storage arbitrary */
void mpt_queue_align(queue_t *q, size_t pos)
{
	uint8_t tmp[CAP], nd_rest[CAP]; size_t i;
	h_aligns++;
	if (pos != 0 || !Q_WF(q)) { h_bad_call = 1; return; }
	if (!q->base) { if (!q->len) q->off = 0; return; }
	for (i = 0; i < CAP; i++) tmp[i] = i < q->len ? QV(q, i) : nd_rest[i];
	for (i = 0; i < CAP; i++) if (i < q->max) ((uint8_t *) q->base)[i] = tmp[i];
	q->off = 0;
}
/* contract of mpt_queue_crop(q, 0, n), n <= len: the first n bytes leave the view, the others keep their order */
int mpt_queue_crop(queue_t *q, size_t pos, size_t len)
{
	h_crops++;
	if (pos != 0 || !Q_WF(q) || len > q->len || !q->max) { h_bad_call = 1; return -1; }
	q->off = Q_IDX(q->off, q->max, len);
	q->len -= len;
	return 0;
}

void harness(void)
{
	IN(size_t, in_max); IN(size_t, in_len); IN(size_t, in_off); IN(size_t, in_k1); IN(size_t, in_new);
	queue_t q; uint8_t in_content[CAP]; size_t i; V_FILL(in_content);
	V_REQ(in_max >= 1 && in_max <= CAP && in_len <= in_max && in_off < in_max && in_new <= CAP);
	for (i = 0; i < CAP; i++) h_A[i] = in_content[i];
	h_asize = in_max; q.base = h_A; q.max = in_max; q.len = in_len; q.off = in_off;
	g_len = in_len; g_off = in_off; g_max = in_max; g_base = q.base; g_k1 = in_k1;
	if (g_k1 < g_len) g_v1 = QV(&q, g_k1);
#ifdef UNIT_PREPARE
	{
		size_t left = mpt_queue_prepare(&q, in_new);
		V_CHECK("prepare: the requested space is free afterwards", IMP(g_len + in_new <= CAP - 8, left >= in_new && left == q.max - q.len));
		V_CHECK("prepare: content and its order unchanged", q.len == g_len && Q_WF(&q) && IMP(g_k1 < g_len, QV(&q, g_k1) == g_v1));
		V_CHECK("prepare: nothing happens when the space is already there", IMP(in_new <= g_max - g_len, q.base == g_base && q.max == g_max && q.off == g_off && h_reallocs == 0));
		V_COVER("grown while wrapped", q.max > g_max && g_off + g_len > g_max);
	}
#else
	{
		void *r = mpt_queue_resize(&q, in_new);
		size_t keep = g_len < in_new ? g_len : in_new, drop = g_len - keep;
		V_CHECK("resize: capacity as requested, struct well formed", q.max == in_new && Q_WF(&q) && (in_new ? r == q.base && r != 0 : (r == 0 && q.base == 0 && q.len == 0 && q.off == 0 && h_freed == 1)));
		V_CHECK("resize: keeps the content, dropping only from the front when it does not fit", q.len == keep && IMP(g_k1 >= drop && g_k1 < g_len && in_new, QV(&q, g_k1 - drop) == g_v1));
		V_COVER("shrunk below the content of a wrapped queue", in_new && drop > 0 && g_off + g_len > g_max);
		V_COVER("grown while wrapped", in_new > g_max && g_off + g_len > g_max);
		V_COVER("released", in_new == 0);
	}
#endif
	V_CHECK("storage: only the queue's own storage is handed to realloc/free", !h_bad);
	V_CHECK("callees are used inside their contracts (align to 0, crop from the front within the content)", !h_bad_call);
	V_CANARY();
}
