/* C13 unit queue_crop: remove view[pos, pos+len) from the middle.
 * mechanism harness (DFCC and CBMC's array-theory memmove exhaust memory on this function, measured);
 * memcpy/memmove are byte loops unwound to CAP with unwinding assertions. */
#include "queue_spec.h"
Q_GHOST_DEFS

#define Q_SAME_S(q_) Q_STRUCT_SAME(q_)
#define POST_mpt_queue_crop(X, q_, p_, n_, r_) \
	X("crop.refuse-outside", IMP((p_) > g_len || (n_) > g_len - (p_), (r_) < 0 && Q_SAME_S(q_))) \
	X("crop.refusal-unchanged", IMP((r_) < 0, Q_SAME_S(q_))) \
	X("crop.must-succeed", IMP((p_) <= g_len && (n_) <= g_len - (p_), (r_) >= 0)) \
	X("crop.struct", IMP((r_) >= 0, (q_)->len == g_len - (n_) && Q_GEOM(q_) && Q_WF(q_))) \
	X("crop.before-kept: view'[k] == view[k], k < pos", IMP((r_) >= 0 && g_k1 < (p_) && g_k1 < g_len, QV(q_, g_k1) == g_v1)) \
	X("crop.after-moved: view'[k-n] == view[k], k >= pos+n", IMP((r_) >= 0 && g_k2 >= (p_) + (n_) && g_k2 < g_len, QV(q_, g_k2 - (n_)) == g_v2))

int mpt_queue_crop(queue_t *queue, size_t pos, size_t len);

void harness(void)
{
	Q_BUILD_BLK(q, st, blk);
	IN(size_t, in_pos); IN(size_t, in_n);
	int ret;
	V_REQ(in_pos <= CAP && in_n <= CAP);
	ret = mpt_queue_crop(&q, in_pos, in_n);
	POST_mpt_queue_crop(H_ENS, &q, in_pos, in_n, ret)
	V_ENS("crop.frame: nothing outside the storage written, nothing at all on refusal", Q_BLK_OUTSIDE(blk, pad, ret < 0));
	V_COVER("crop in the middle of wrapped content", ret >= 0 && in_pos > 0 && in_n > 0 && g_off + g_len > g_max && in_pos + in_n < g_len);
	V_COVER("crop spanning the wrap point", ret >= 0 && in_pos > 0 && g_off + in_pos < g_max && g_off + in_pos + in_n > g_max && in_pos + in_n < g_len);
	V_COVER("crop the tail of wrapped content", ret >= 0 && in_pos > 0 && in_n > 0 && g_off + in_pos < g_max && g_off + g_len > g_max && in_pos + in_n == g_len);
	V_COVER("crop from front", ret >= 0 && in_pos == 0 && in_n > 0);
	V_COVER("refused", ret < 0);
	V_CANARY();
}
