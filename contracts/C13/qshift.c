/* C13 unit qshift: mpt_qshift removes `len` bytes from the FRONT of the deque */
#include "queue_spec.h"
Q_GHOST_DEFS

#define POST_mpt_qshift(X, q_, n_, d_, r_) \
	X("shift.refuse-too-long", IMP((n_) > g_len, (r_) == 0 && Q_SAME(q_))) \
	X("shift.refusal-unchanged", IMP((r_) == 0, Q_SAME(q_))) \
	X("shift.must-succeed", IMP((n_) <= g_len && (d_) != 0, (r_) != 0)) \
	X("shift.struct", IMP((r_) != 0, (q_)->len == g_len - (n_) && Q_GEOM(q_) && Q_WF(q_))) \
	X("shift.remaining-view: view'[k] == view[k+n]", IMP((r_) != 0 && g_k1 >= (n_) && g_k1 < g_len, QV(q_, g_k1 - (n_)) == g_v1)) \
	X("shift.copied-bytes: dst[j] == view[j]", IMP((r_) != 0 && (d_) && g_k2 < (n_), ((const uint8_t *) (d_))[g_k2] == g_v2)) \
	X("shift.returned-address", IMP((r_) != 0 && g_k2 == 0 && (n_) > 0, *((const uint8_t *) (r_)) == g_v2)) \
	X("shift.storage-untouched", Q_PHYS(q_))

void *mpt_qshift(queue_t *queue, size_t len, void *data)
__CPROVER_requires(Q_WF(queue) && Q_BIND(queue))
__CPROVER_requires(IMP(len == 0, queue->base != 0))
__CPROVER_assigns(queue->len, queue->off, V_ERRNO; data: __CPROVER_object_upto(data, len))
POST_mpt_qshift(C_ENSURES, queue, len, data, __CPROVER_return_value)
;

void harness(void)
{
	Q_BUILD(q, st);
	IN(size_t, in_n); IN(int, in_has_dst);
	uint8_t *dst = 0;
	void *ret;
	V_REQ(in_n <= CAP && IMP(in_n == 0, in_max != 0));
	if (in_has_dst) { IN_BUF(dst, in_n); }
	ret = mpt_qshift(&q, in_n, dst);
	POST_mpt_qshift(H_ENS, &q, in_n, dst, ret)
	V_COVER("shift across both segments", ret != 0 && g_off + g_len > g_max && in_n > g_max - g_off);
	V_COVER("shift inside first segment", ret != 0 && in_n > 0 && in_n < g_len);
	V_COVER("refused", ret == 0);
	V_CANARY();
}
