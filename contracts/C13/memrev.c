/* C13 unit memrev: mpt_memrev(data, pre, len) rotates data[0,len) left by `pre`:
 *   out[k] == in[(k + pre) mod len];   mpt_memswap exchanges two disjoint ranges.
 * width-complete: below the capacity CAP each round of the block swap removes > 1024 bytes
 * while both sides exceed 1024, so at most CAP/1024 rounds / blocks exist (unwinding assertions). */
#include "queue_spec.h"
size_t g_k; uint8_t g_v, g_w;

#define POST_mpt_memrev(X, d_, pre_, n_, r_) \
	X("memrev.accepts", IMP((d_) != 0 && (pre_) <= (n_), (r_) == 0)) \
	X("memrev.refuses-bad-pivot", IMP((pre_) > (n_), (r_) < 0)) \
	X("memrev.rotation: out[k] == in[(k+pre) mod len]", IMP((r_) == 0 && g_k < (n_), ((const uint8_t *) (d_))[g_k] == g_v))

#define POST_mpt_memswap(X, a_, b_, n_, r_) \
	X("memswap.ok", (r_) == 0) \
	X("memswap.a-gets-b", IMP(g_k < (n_), ((const uint8_t *) (a_))[g_k] == g_w)) \
	X("memswap.b-gets-a", IMP(g_k < (n_), ((const uint8_t *) (b_))[g_k] == g_v))

int mpt_memrev(void *data, size_t pre, size_t len);
int mpt_memswap(void *from, void *to, size_t len);

void harness(void)
{
	IN(size_t, in_len); IN(size_t, in_pre); IN(size_t, in_k); IN(int, in_layout);
	uint8_t *d, *blk; int ret; size_t pad;
	V_REQ(in_len <= CAP && in_pre <= CAP);
	g_k = in_k;
#ifdef UNIT_SWAP
	{
		uint8_t *e, *blk2;
		/* windows of exactly len bytes at the start or the end of fixed blocks (see Q_BUILD_BLK) */
		IN_BUF(blk, CAP); IN_BUF(blk2, CAP); pad = in_layout ? CAP - in_len : 0;
		d = blk + pad; e = blk2 + pad;
		if (g_k < in_len) { g_v = d[g_k]; g_w = e[g_k]; }
		ret = mpt_memswap(d, e, in_len);
		POST_mpt_memswap(H_ENS, d, e, in_len, ret)
		V_COVER("more than one block", in_len > 2 * VERIF_BLK);
		V_COVER("partial block", in_len % VERIF_BLK != 0 && in_len > VERIF_BLK);
	}
#else
	IN_BUF(blk, CAP); pad = in_layout ? CAP - in_len : 0; d = blk + pad;
	if (g_k < in_len && in_pre <= in_len) g_v = d[Q_IDX(in_pre, in_len, g_k)];
	ret = mpt_memrev(d, in_pre, in_len);
	POST_mpt_memrev(H_ENS, d, in_pre, in_len, ret)
	V_COVER("block swap round, lower part", ret == 0 && in_pre > VERIF_BLK && in_len - in_pre > VERIF_BLK && in_pre < in_len - in_pre);
	V_COVER("block swap round, higher part", ret == 0 && in_pre > VERIF_BLK && in_len - in_pre > VERIF_BLK && in_pre >= in_len - in_pre);
	V_COVER("small prefix", ret == 0 && in_pre > 0 && in_pre <= VERIF_BLK && in_len > in_pre);
	V_COVER("refused", ret < 0);
#endif
	V_CANARY();
}
