/* C13 units queue_data / queue_empty: the segment split IS the view */
#include "queue_spec.h"
Q_GHOST_DEFS
size_t g_j;

/* data: first segment = view[0,low) at ret; second = view[low,len) at base */
#define POST_mpt_queue_data(X, q_, l_, r_) \
	X("data.null-only-when-split-and-no-low", IMP((r_) == 0, (l_) == 0 && g_off + g_len > g_max)) \
	X("data.low-length", IMP((r_) != 0 && (l_), *(l_) == (g_off + g_len > g_max ? g_max - g_off : g_len))) \
	X("data.first-segment-is-view", IMP((r_) != 0 && g_k1 < g_len && g_off + g_k1 < g_max, (const uint8_t *) (r_) + g_k1 == (const uint8_t *) g_base + Q_IDX(g_off, g_max, g_k1))) \
	X("data.queue-unchanged", Q_SAME(q_))

/* empty: free ring positions j in [0, max-len): first `low` of them at ret, the other `high` at base */
#define POST_mpt_queue_empty(X, q_, l_, h_, r_) \
	X("empty.null-iff-full", ((r_) == 0) == (g_len == g_max)) \
	X("empty.sizes", IMP((r_) != 0 && (h_), *(l_) + *(h_) == g_max - g_len)) \
	X("empty.low-nonzero", IMP((r_) != 0, *(l_) > 0 && *(l_) <= g_max - g_len)) \
	X("empty.first-part-follows-content", IMP((r_) != 0 && g_j < *(l_), (const uint8_t *) (r_) + g_j == (const uint8_t *) g_base + Q_IDX(g_off, g_max, Q_IDX(0, g_max, g_len + g_j)))) \
	X("empty.second-part-at-base", IMP((r_) != 0 && (h_) && *(h_) > 0 && g_j < *(h_), Q_IDX(g_off, g_max, Q_IDX(0, g_max, g_len + *(l_) + g_j)) == g_j)) \
	X("empty.queue-unchanged", Q_SAME(q_))

void *mpt_queue_data(const queue_t *queue, size_t *low)
__CPROVER_requires(Q_WF(queue) && Q_BIND(queue) && g_off < g_max)
__CPROVER_assigns(low: *low)
POST_mpt_queue_data(C_ENSURES, queue, low, __CPROVER_return_value)
;
void *mpt_queue_empty(const queue_t *queue, size_t *low, size_t *high)
__CPROVER_requires(Q_WF(queue) && Q_BIND(queue) && low != 0 && g_off < g_max)
__CPROVER_assigns(*low; high: *high)
POST_mpt_queue_empty(C_ENSURES, queue, low, high, __CPROVER_return_value)
;

void harness(void)
{
	Q_BUILD(q, st);
	IN(int, in_has_low); IN(int, in_has_high); IN(size_t, in_j);
	size_t low = 0, high = 0;
	void *ret;
	g_j = in_j;
	V_REQ(in_off < in_max);
#ifdef UNIT_EMPTY
	ret = mpt_queue_empty(&q, &low, in_has_high ? &high : 0);
	POST_mpt_queue_empty(H_ENS, &q, &low, (in_has_high ? &high : (size_t *) 0), ret)
	V_COVER("free space in two parts", ret != 0 && in_has_high && high > 0 && low > 0);
	V_COVER("free space between wrapped content", ret != 0 && g_off + g_len > g_max);
	V_COVER("full", ret == 0);
#else
	ret = mpt_queue_data(&q, in_has_low ? &low : 0);
	POST_mpt_queue_data(H_ENS, &q, (in_has_low ? &low : (size_t *) 0), ret)
	V_COVER("split content", ret != 0 && g_off + g_len > g_max);
	V_COVER("split content without length pointer", ret == 0);
#endif
	V_CANARY();
}
