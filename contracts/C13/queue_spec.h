/*
 * C13 - abstract view of MPT_STRUCT(queue) and the contracts of the queue
 * operations.  The view is taken from the property statement ("a plain
 * double-ended byte list"), not from the code's helper macros:
 *
 *     QV(q,k) = ((uint8_t *) q->base)[(q->off + k) % q->max]     for k < q->len
 *
 * Ghost state (set by the harness before the call, tied to the pre-state by
 * `requires`, read by `ensures`):
 *     g_len,g_off,g_max,g_base  pre-state of the queue struct
 *     g_k1,g_k2 / g_v1,g_v2     two arbitrary view indices and the bytes the view held there
 *     g_p / g_vp                one arbitrary physical storage index and its byte
 */
#ifndef QUEUE_SPEC_H
#define QUEUE_SPEC_H
#include "verif.h"
#include <sys/types.h>
#include <sys/uio.h>
#include <errno.h>
#include "queue.h"

#ifndef CAP
# define CAP 4096
#endif

typedef MPT_STRUCT(queue) queue_t;

/* off == max is tolerated by the code as an alias of 0 (mpt_qpre produces it) */
#define Q_WF(q)      ((q)->len <= (q)->max && (q)->max <= CAP && (q)->off <= (q)->max)
/* (off + k) mod max for off <= max, k <= max, written without a divider circuit */
#define Q_IDX(off, max, k)  (((off) + (k)) >= (max) ? ((off) + (k)) - (max) : ((off) + (k)))
#define QV(q, k)     (((const uint8_t *) (q)->base)[Q_IDX((q)->off, (q)->max, (k))])
/* view through the pre-state geometry (base/max are never changed by the byte operations) */
#define QV0(q, k)    (((const uint8_t *) (q)->base)[Q_IDX(g_off, g_max, (k))])

extern size_t g_len, g_off, g_max, g_k1, g_k2, g_p;
extern void  *g_base;
extern uint8_t g_v1, g_v2, g_vp;

/* pre-state binding, used as `requires` so that the ghost values are the real pre-state */
#define Q_BIND(q) (g_len == (q)->len && g_off == (q)->off && g_max == (q)->max && g_base == (q)->base && \
                   IMP(g_k1 < g_len, g_v1 == QV(q, g_k1)) && IMP(g_k2 < g_len, g_v2 == QV(q, g_k2)) && \
                   IMP(g_p < g_max, g_vp == ((const uint8_t *) (q)->base)[g_p]))
/* nothing changed at all: struct and every storage byte (ghost physical index) */
#define Q_SAME(q)  ((q)->len == g_len && (q)->off == g_off && (q)->max == g_max && (q)->base == g_base && \
                    IMP(g_p < g_max, ((const uint8_t *) (q)->base)[g_p] == g_vp))
#define Q_GEOM(q)  ((q)->max == g_max && (q)->base == g_base)
#define Q_PHYS(q)  IMP(g_p < g_max, ((const uint8_t *) (q)->base)[g_p] == g_vp)
#define Q_STRUCT_SAME(q) ((q)->len == g_len && (q)->off == g_off && (q)->max == g_max && (q)->base == g_base)

#ifdef VERIF_NATIVE
# undef  Q_BIND
# define Q_BIND(q) 1
#endif

/* harness helper: build an arbitrary well-formed queue over a heap object of exactly `max` bytes */
#define Q_BUILD(q, st)  \
	IN(size_t, in_max); IN(size_t, in_len); IN(size_t, in_off); \
	IN(size_t, in_k1); IN(size_t, in_k2); IN(size_t, in_p); \
	uint8_t *st; queue_t q; \
	V_REQ(in_max <= CAP && in_len <= in_max && in_off <= in_max); \
	IN_BUF(st, in_max); \
	q.base = in_max ? st : 0; q.max = in_max; q.len = in_len; q.off = in_off; \
	g_len = in_len; g_off = in_off; g_max = in_max; g_base = q.base; \
	g_k1 = in_k1; g_k2 = in_k2; g_p = in_p; \
	if (g_k1 < g_len) g_v1 = QV(&q, g_k1); \
	if (g_k2 < g_len) g_v2 = QV(&q, g_k2); \
	if (g_p < g_max) g_vp = st[g_p]

/* variant for units whose copy loops are unwound (small CAP): the storage is a window of exactly
 * `max` bytes inside a fixed block of CAP bytes, placed at its start or at its end (symbolic), so
 * an access beyond either end of the storage leaves the object in one of the two placements, and
 * a write into the block outside the window is caught by the ghost physical index g_p. */
#define Q_BUILD_BLK(q, st, blk)  \
	IN(size_t, in_max); IN(size_t, in_len); IN(size_t, in_off); \
	IN(size_t, in_k1); IN(size_t, in_k2); IN(size_t, in_p); IN(int, in_layout); \
	uint8_t *blk, *st; queue_t q; size_t pad; \
	V_REQ(in_max <= CAP && in_len <= in_max && in_off <= in_max); \
	IN_BUF(blk, CAP); pad = in_layout ? CAP - in_max : 0; st = blk + pad; \
	q.base = in_max ? st : 0; q.max = in_max; q.len = in_len; q.off = in_off; \
	g_len = in_len; g_off = in_off; g_max = in_max; g_base = q.base; \
	g_k1 = in_k1; g_k2 = in_k2; g_p = in_p; \
	if (g_k1 < g_len) g_v1 = QV(&q, g_k1); \
	if (g_k2 < g_len) g_v2 = QV(&q, g_k2); \
	if (g_p < CAP) g_vp = blk[g_p]
/* block bytes outside the storage window never change; on refusal no byte changes */
#define Q_BLK_OUTSIDE(blk, pad, refused) IMP(g_p < CAP && ((refused) || g_p < (pad) || g_p >= (pad) + g_max), (blk)[g_p] == g_vp)

#define Q_GHOST_DEFS \
	size_t g_len, g_off, g_max, g_k1, g_k2, g_p; void *g_base; uint8_t g_v1, g_v2, g_vp;

#endif
