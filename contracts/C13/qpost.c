/* C13 unit qpost: mpt_qpost reserves `len` bytes at the END, mpt_qpre at the FRONT (content undefined, old content kept) */
#include "queue_spec.h"
Q_GHOST_DEFS

#define POST_mpt_qpost(X, q_, n_, r_) \
	X("post.refuse-no-room", IMP((n_) > g_max - g_len, (r_) < 0 && Q_SAME(q_))) \
	X("post.refusal-unchanged", IMP((r_) < 0, Q_SAME(q_))) \
	X("post.must-succeed", IMP((n_) <= g_max - g_len && (n_) > 0, (r_) >= 0)) \
	X("post.struct", IMP((r_) >= 0, (q_)->len == g_len + (n_) && (q_)->off == g_off && Q_GEOM(q_))) \
	X("post.old-view-kept", IMP((r_) >= 0 && g_k1 < g_len, QV(q_, g_k1) == g_v1)) \
	X("post.storage-untouched", Q_PHYS(q_))

#define POST_mpt_qpre(X, q_, n_, r_) \
	X("pre.refuse-no-room", IMP((n_) > g_max - g_len, (r_) < 0 && Q_SAME(q_))) \
	X("pre.refusal-unchanged", IMP((r_) < 0, Q_SAME(q_))) \
	X("pre.must-succeed", IMP((n_) <= g_max - g_len && (n_) > 0, (r_) >= 0)) \
	X("pre.struct", IMP((r_) >= 0, (q_)->len == g_len + (n_) && Q_GEOM(q_) && Q_WF(q_))) \
	X("pre.old-view-shifted: view'[k+n] == view[k]", IMP((r_) >= 0 && g_k1 < g_len, QV(q_, g_k1 + (n_)) == g_v1)) \
	X("pre.storage-untouched", Q_PHYS(q_))

ssize_t mpt_qpost(queue_t *queue, size_t len)
__CPROVER_requires(Q_WF(queue) && Q_BIND(queue))
__CPROVER_assigns(queue->len)
POST_mpt_qpost(C_ENSURES, queue, len, __CPROVER_return_value)
;
ssize_t mpt_qpre(queue_t *queue, size_t len)
__CPROVER_requires(Q_WF(queue) && Q_BIND(queue))
__CPROVER_assigns(queue->len, queue->off)
POST_mpt_qpre(C_ENSURES, queue, len, __CPROVER_return_value)
;

void harness(void)
{
	Q_BUILD(q, st);
	IN(size_t, in_n);
	ssize_t ret;
#ifdef UNIT_PRE
	ret = mpt_qpre(&q, in_n);
	POST_mpt_qpre(H_ENS, &q, in_n, ret)
	V_COVER("prepended space wraps below the storage start", ret >= 0 && in_n > g_off && g_off > 0);
#else
	ret = mpt_qpost(&q, in_n);
	POST_mpt_qpost(H_ENS, &q, in_n, ret)
	V_COVER("appended space wraps", ret >= 0 && g_off + g_len < g_max && g_off + g_len + in_n > g_max);
#endif
	V_COVER("zero length request", in_n == 0);
	V_COVER("full queue", g_len == g_max && g_max > 0);
	V_COVER("refused", ret < 0);
	V_CANARY();
}
