/* C13 unit qpush / qunshift: add `len` bytes (copied from data, or zeros) at the END / FRONT */
#include "queue_spec.h"
Q_GHOST_DEFS
size_t g_j; uint8_t g_dj;   /* arbitrary index into the source and the source byte there */

#define SRCBYTE(d_)  ((d_) ? g_dj : 0)
#define POST_mpt_qpush(X, q_, n_, d_, r_) \
	X("push.refuse-no-room", IMP((n_) > g_max - g_len, (r_) < 0 && Q_SAME(q_))) \
	X("push.refusal-unchanged", IMP((r_) < 0, Q_SAME(q_))) \
	X("push.must-succeed", IMP((n_) <= g_max - g_len && (n_) > 0, (r_) >= 0)) \
	X("push.struct", IMP((r_) >= 0, (q_)->len == g_len + (n_) && (q_)->off == g_off && Q_GEOM(q_))) \
	X("push.old-view-kept", IMP((r_) >= 0 && g_k1 < g_len, QV(q_, g_k1) == g_v1)) \
	X("push.new-bytes: view'[len+j] == data[j] (zero without data)", IMP((r_) >= 0 && g_j < (n_), QV(q_, g_len + g_j) == SRCBYTE(d_)))

#define POST_mpt_qunshift(X, q_, n_, d_, r_) \
	X("unshift.refuse-no-room", IMP((n_) > g_max - g_len, (r_) < 0 && Q_SAME(q_))) \
	X("unshift.refusal-unchanged", IMP((r_) < 0, Q_SAME(q_))) \
	X("unshift.must-succeed", IMP((n_) <= g_max - g_len && (n_) > 0, (r_) >= 0)) \
	X("unshift.struct", IMP((r_) >= 0, (q_)->len == g_len + (n_) && Q_GEOM(q_) && Q_WF(q_))) \
	X("unshift.old-view-shifted", IMP((r_) >= 0 && g_k1 < g_len, QV(q_, g_k1 + (n_)) == g_v1)) \
	X("unshift.new-bytes: view'[j] == data[j] (zero without data)", IMP((r_) >= 0 && g_j < (n_), QV(q_, g_j) == SRCBYTE(d_)))

#ifdef VERIF_NATIVE
# define BINDJ(d_, n_) 1
#else
# define BINDJ(d_, n_) IMP((d_) && g_j < (n_), g_dj == ((const uint8_t *) (d_))[g_j])
#endif

int mpt_qpush(queue_t *queue, size_t len, const void *data)
__CPROVER_requires(Q_WF(queue) && Q_BIND(queue) && BINDJ(data, len))
__CPROVER_assigns(queue->len; queue->base: __CPROVER_object_whole(queue->base))
POST_mpt_qpush(C_ENSURES, queue, len, data, __CPROVER_return_value)
;
int mpt_qunshift(queue_t *queue, size_t len, const void *data)
__CPROVER_requires(Q_WF(queue) && Q_BIND(queue) && BINDJ(data, len))
__CPROVER_assigns(queue->len, queue->off; queue->base: __CPROVER_object_whole(queue->base))
POST_mpt_qunshift(C_ENSURES, queue, len, data, __CPROVER_return_value)
;

void harness(void)
{
	Q_BUILD(q, st);
	IN(size_t, in_n); IN(int, in_has_src); IN(size_t, in_j);
	uint8_t *src = 0;
	int ret;
	V_REQ(in_n <= CAP);
	if (in_has_src) { IN_BUF(src, in_n); }
	g_j = in_j;
	if (src && g_j < in_n) g_dj = src[g_j];
#ifdef UNIT_UNSHIFT
	ret = mpt_qunshift(&q, in_n, src);
	POST_mpt_qunshift(H_ENS, &q, in_n, src, ret)
	V_COVER("new front wraps below storage start", ret >= 0 && in_n > g_off && g_off > 0 && in_n > 1);
#else
	ret = mpt_qpush(&q, in_n, src);
	POST_mpt_qpush(H_ENS, &q, in_n, src, ret)
	V_COVER("new bytes wrap around the storage end", ret >= 0 && g_off + g_len < g_max && g_off + g_len + in_n > g_max);
#endif
	V_COVER("zero fill", ret >= 0 && !src && in_n > 0);
	V_COVER("refused", ret < 0);
	V_CANARY();
}
