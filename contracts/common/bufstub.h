/*
 * Abstract buffer implementation for the array units (C04, C05, C01 array_push): a pool of NPOOL
 * buffers of BCAP data bytes whose v-table entries are OPERATIONAL stubs of the buffer-interface
 * contract (what buffer_alloc.c implements and is checked against in its own units):
 *   get_flags : user flags | Shared iff more than one holder
 *   addref/unref : counting, last unref destroys (finalises every element of a typed buffer)
 *   detach(b,n) : in place when unique, mutable and large enough; otherwise a new buffer of size >= n
 *                 (may fail; refuses NoCopy content): COPY (element-wise copy construction) when shared,
 *                 MOVE (old buffer destroyed, elements beyond n finalised) when unique.
 * Element behaviour is a ghost tracker: h_live[buffer][slot]; h_init asserts the slot is not live
 * (no construction over a live element), h_fini asserts it is live (no double destroy, no destroy of
 * memory that is not an element), h_init may fail.
 */
#ifndef BUFSTUB_H
#define BUFSTUB_H
#include "verif.h"
#include <errno.h>
#include <string.h>
#include <sys/uio.h>
#include "types.h"
#include "array.h"

#ifndef BCAP
# define BCAP 16
#endif
#ifndef ESZ
# define ESZ 4
#endif
#define NPOOL 3
#define NSLOT (BCAP / ESZ)

/* three separate objects, so an access beyond one buffer's data area leaves its object (bounds check) */
struct h_buf { MPT_STRUCT(buffer) b; uint8_t data[BCAP]; };
static struct h_buf h_b0, h_b1, h_b2;
#define h_pool_(i_) ((i_) == 0 ? &h_b0 : ((i_) == 1 ? &h_b1 : &h_b2))
static uintptr_t h_refs[NPOOL];
static int h_uflags[NPOOL], h_alive[NPOOL];
static uint8_t h_live[NPOOL][NSLOT];
static int h_alloc_fails, h_init_fails;   /* environment choices for this run */
static int h_init_fail_at, h_init_calls;     /* the constructor may also fail at its n-th call only (0: never) */
static int h_copies, h_finis, h_inits;

static int h_index(const void *p)
{
	if (__CPROVER_same_object(p, &h_b0)) return 0;
	if (__CPROVER_same_object(p, &h_b1)) return 1;
	__CPROVER_assert(__CPROVER_same_object(p, &h_b2), "pointer into one of the pool buffers");
	return 2;
}
static void h_slot(const void *p, int *bi, size_t *si)
{
	int i = h_index(p); size_t off = (size_t) __CPROVER_POINTER_OFFSET(p) - sizeof(MPT_STRUCT(buffer));
	__CPROVER_assert(off < BCAP && off % ESZ == 0, "element callback: argument is an element position inside the buffer data");
	*bi = i; *si = off / ESZ;
}
static int h_init(void *ptr, const void *src)
{
	int bi; size_t si;
	h_slot(ptr, &bi, &si);
	__CPROVER_assert(h_alive[bi], "element init: buffer is alive");
	__CPROVER_assert(!h_live[bi][si], "element init: no construction over a live element");
	h_init_calls++;
	if (h_init_fails || h_init_calls == h_init_fail_at) return MPT_ERROR(BadOperation);
	{ size_t q_; for (q_ = 0; q_ < ESZ; q_++) ((uint8_t *) ptr)[q_] = src ? ((const uint8_t *) src)[q_] : 0; if (src) h_copies++; }
	h_live[bi][si] = 1; h_inits++;
	return 0;
}
/* identity watch: counts the finalisations of THE element whose first byte is h_watch_val (the harness makes that byte
 * unique among the elements), so that 'which element was finalised' is decided, not only 'how many' */
static int h_watch_on, h_watch_fins; static uint8_t h_watch_val;
static void h_fini(void *ptr)
{
	int bi; size_t si;
	h_slot(ptr, &bi, &si);
	if (h_watch_on && h_pool_(bi)->data[si * ESZ] == h_watch_val) h_watch_fins++;
	__CPROVER_assert(h_alive[bi], "element fini: buffer is alive");
	__CPROVER_assert(h_live[bi][si], "element fini: element is alive (no double destroy, no destroy of a non-element)");
	h_live[bi][si] = 0; h_finis++;
}
static const MPT_STRUCT(type_traits) h_traits = { h_init, h_fini, ESZ };

static uint32_t h_get_flags(const MPT_STRUCT(buffer) *b) { int i = h_index(b); return (uint32_t) h_uflags[i] | (h_refs[i] > 1 ? MPT_ENUM(BufferShared) : 0); }
static void h_destroy(int i)
{
	size_t s;
	__CPROVER_assert(h_alive[i], "buffer destroyed once");
	for (s = 0; s < NSLOT; s++) {
		if (h_pool_(i)->b._content_traits && s * ESZ + ESZ <= h_pool_(i)->b._used) { __CPROVER_assert(h_live[i][s], "destroy: element below used is alive"); h_live[i][s] = 0; h_finis++; }
	}
	h_alive[i] = 0;
}
static void h_unref(MPT_STRUCT(buffer) *b) { int i = h_index(b); __CPROVER_assert(h_alive[i] && h_refs[i] > 0, "unref of a live buffer"); if (!--h_refs[i]) h_destroy(i); }
static uintptr_t h_addref(MPT_STRUCT(buffer) *b) { int i = h_index(b); if (h_refs[i] == UINTPTR_MAX) return 0; return ++h_refs[i]; }
static MPT_STRUCT(buffer) *h_new(size_t len, int flags);
static MPT_STRUCT(buffer) *h_detach(MPT_STRUCT(buffer) *b, size_t len)
{
	int i = h_index(b), j; size_t used = b->_used, s; const MPT_STRUCT(type_traits) *tr = b->_content_traits; MPT_STRUCT(buffer) *n;
	__CPROVER_assert(h_alive[i], "detach of a live buffer");
	if (tr) { if (len % ESZ) len += ESZ - len % ESZ; }
	if (h_refs[i] < 2) { if (len <= b->_size && !(h_uflags[i] & MPT_ENUM(BufferImmutable))) return b; }
	else if ((h_uflags[i] & MPT_ENUM(BufferNoCopy)) && used) { errno = ENOTSUP; return 0; }
	if (!(n = h_new(len, h_uflags[i] & ~MPT_ENUM(BufferImmutable)))) return 0;
	j = h_index(n);
	n->_content_traits = tr;
	if (h_refs[i] > 1) {           /* copy: the other holders keep the old buffer */
		if (used > n->_size) { h_alive[j] = 0; h_refs[j] = 0; return 0; }   /* the copy does not fit: detach fails */
		h_refs[i]--;
		if (tr) { for (s = 0; s < NSLOT; s++) if (s * ESZ + ESZ <= used) { h_live[j][s] = 1; h_copies++; } }
		for (s = 0; s < BCAP; s++) if (s < used) h_pool_(j)->data[s] = h_pool_(i)->data[s];
		n->_used = used;
	} else {                        /* move */
		size_t keep = used > len ? len : used;
		if (tr) { for (s = 0; s < NSLOT; s++) if (h_live[i][s]) { if (s * ESZ + ESZ <= keep) { h_live[j][s] = 1; } else { h_finis++; } h_live[i][s] = 0; } }
		for (s = 0; s < BCAP; s++) if (s < keep) h_pool_(j)->data[s] = h_pool_(i)->data[s];
		n->_used = keep;
		h_alive[i] = 0; h_refs[i] = 0;
	}
	return n;
}
static const MPT_INTERFACE_VPTR(buffer) h_buf_vptr = { h_get_flags, h_unref, h_addref, h_detach };
static MPT_STRUCT(buffer) *h_new(size_t len, int flags)
{
	int j; size_t sz;
	if (h_alloc_fails || len > BCAP) return 0;
	j = !h_alive[0] ? 0 : (!h_alive[1] ? 1 : (!h_alive[2] ? 2 : -1));
	__CPROVER_assert(j >= 0, "harness: buffer pool exhausted");
	V_ND(size_t, sz);
	__CPROVER_assume(sz >= len && sz <= BCAP);      /* an allocator may round the size up */
	h_pool_(j)->b._vptr = &h_buf_vptr; h_pool_(j)->b._content_traits = 0; *((size_t *) &h_pool_(j)->b._size) = sz; h_pool_(j)->b._used = 0;
	h_refs[j] = 1; h_uflags[j] = flags & MPT_ENUM(BufferFlagsUser); h_alive[j] = 1;
	{ size_t s; for (s = 0; s < NSLOT; s++) h_live[j][s] = 0; }
	return &h_pool_(j)->b;
}
/* the allocator entry the array functions call directly */
MPT_STRUCT(buffer) *_mpt_buffer_alloc(size_t len, int flags) { return h_new(len, flags); }

/* --- harness helpers --- */
/* put pool[0] into an arbitrary valid state: capacity, fill, holders, flags, raw or typed (all elements below used alive) */
#define H_SETUP(size_, used_, refs_, flags_, typed_) do { size_t s_; V_OBJ(h_b0); V_OBJ(h_b1); V_OBJ(h_b2); \
	h_b0.b._vptr = &h_buf_vptr; h_b0.b._content_traits = (typed_) ? &h_traits : 0; \
	*((size_t *) &h_b0.b._size) = (size_); h_b0.b._used = (used_); \
	h_refs[0] = (refs_); h_uflags[0] = (flags_); h_alive[0] = 1; \
	for (s_ = 0; s_ < NSLOT; s_++) h_live[0][s_] = ((typed_) && s_ * ESZ + ESZ <= (used_)) ? 1 : 0; \
	h_copies = h_finis = h_inits = 0; } while (0)
/* typed-buffer representation invariant: exactly the elements below `used` are alive, in every live buffer; none in a dead one */
static int h_elements_consistent(void)
{
	int i; size_t s, ok = 1;
	for (i = 0; i < NPOOL; i++) for (s = 0; s < NSLOT; s++) {
		int want = h_alive[i] && h_pool_(i)->b._content_traits == &h_traits && s * ESZ + ESZ <= h_pool_(i)->b._used;
		if ((h_live[i][s] != 0) != (want != 0)) ok = 0;
	}
	return (int) ok;
}
/* the same invariant by count, for operations that relocate elements bitwise (memmove): as many live
 * elements as `used` holds in every live typed buffer, none anywhere else */
static int h_elements_count_consistent(void)
{
	int i; size_t s, ok = 1;
	for (i = 0; i < NPOOL; i++) {
		size_t n = 0, want = (h_alive[i] && h_pool_(i)->b._content_traits == &h_traits) ? h_pool_(i)->b._used / ESZ : 0;
		for (s = 0; s < NSLOT; s++) if (h_live[i][s]) n++;
		if (n != want) ok = 0;
	}
	return (int) ok;
}
#define H_DATA(b_)   ((uint8_t *) ((b_) + 1))
/* data byte k of buffer b_ read by explicit selection of the pool object: reading through the symbolic
 * pointer (b_ + 1) makes CBMC extract bytes from whole structs that contain pointers (measured: out of memory) */
#define H_BYTE(b_, k_)  ((b_) == &h_b0.b ? h_b0.data[k_] : ((b_) == &h_b1.b ? h_b1.data[k_] : h_b2.data[k_]))
#define H_IDX(b_)       ((b_) == &h_b0.b ? 0 : ((b_) == &h_b1.b ? 1 : 2))
#endif
