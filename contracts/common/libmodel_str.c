/* CBMC 6.11 ships no body for memchr: byte-loop model (first occurrence), unwound by the units that use it */
#include <stddef.h>
void *memchr(const void *s, int c, size_t n)
{
	const unsigned char *p = s; size_t i;
	for (i = 0; i < n; i++) if (p[i] == (unsigned char) c) return (void *) (p + i);
	return 0;
}
