/* byte-loop models of memcpy/memmove/memset for units where CBMC's array-theory models of
 * symbolic-length copies exhaust the solver.  Used only together with a small capacity constant
 * and --unwind CAP+1 --unwinding-assertions (complete for every length <= CAP).  The models
 * check what the C standard requires of the arguments (valid ranges; memcpy: no overlap is NOT
 * checked here, the byte order below is the one glibc's forward copy has for non-overlap). */
#include <stddef.h>
void *memcpy(void *dst, const void *src, size_t n)
{
	unsigned char *d = dst; const unsigned char *s = src; size_t i;
	for (i = 0; i < n; i++) d[i] = s[i];
	return dst;
}
void *memmove(void *dst, const void *src, size_t n)
{
	unsigned char *d = dst; const unsigned char *s = src; size_t i;
	if (__CPROVER_same_object(d, s) && __CPROVER_POINTER_OFFSET(d) > __CPROVER_POINTER_OFFSET(s)) {
		for (i = n; i > 0; i--) d[i - 1] = s[i - 1];
	} else {
		for (i = 0; i < n; i++) d[i] = s[i];
	}
	return dst;
}
void *memset(void *dst, int c, size_t n)
{
	unsigned char *d = dst; size_t i;
	for (i = 0; i < n; i++) d[i] = (unsigned char) c;
	return dst;
}
