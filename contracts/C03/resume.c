/* C03/C01 units dec_<framing>.resume: the decoder resumed INSIDE a long block, so that the codes at the block
 * limit (plain: 0xFD 0xFE 0xFF; ZPE: 0xDD 0xDE 0xDF) are reached without unwinding 254 iterations: the decoder
 * state says "block with code C, all but RLEFT of its data bytes already decoded in place", then NEW symbolic
 * bytes follow.  The message bytes delivered for the new input are compared with a reference continuation
 * written from the COBS definitions: a maximal block is NOT followed by an implied zero, a shorter one is.
 * Bounded stand-in (NEW new bytes, fixed resume position). */
#include "verif.h"
#include <sys/uio.h>
#include "message.h"
#include "convert.h"
#ifndef DEC_FN
# define DEC_FN mpt_decode_cobs
# define REF_MAXLEN 255
# define REF_ZPE 0
# define REF_INLINE 0
#endif
#ifndef RLEFT
# define RLEFT 1
#endif
#ifndef NEW
# define NEW 4
#endif
#define BUFSZ (REF_MAXLEN + 2 + NEW)

#define NB NEW
#include "ref_decode.h"

void harness(void)
{
	IN(uint8_t, in_code); uint8_t in_new[NEW]; IN(size_t, in_n); IN(size_t, in_k); V_FILL(in_new);
	static uint8_t store[BUFSZ]; uint8_t ref_out[2 * NEW + 4];
	MPT_STRUCT(decode_state) dec = MPT_DECODE_INIT; struct iovec src; size_t i, had, used = 0; int d, ref;
	/* a block near or at the limit with RLEFT data bytes still to come */
	V_REQ(in_code >= REF_MAXLEN - 2 && in_code <= REF_MAXLEN && in_n <= NEW);
	had = (size_t) in_code - 1 - RLEFT;                 /* data bytes of the block already decoded in place */
	for (i = 0; i < BUFSZ; i++) store[i] = 0x41;           /* already decoded bytes: non-zero filler */
	for (i = 0; i < NEW; i++) store[had + 1 + i] = in_new[i];
	dec._ctx = (uintptr_t) had * 0x100 + in_code;       /* MPT_cobs_state(code, pos) */
	dec.data.pos = 0; dec.data.len = had; dec.data.msg = -1; dec.curr = had + 1;   /* one code byte read so far */
	ref = ref_resume(in_code, RLEFT, in_new, in_n, ref_out, &used);
	src.iov_base = store; src.iov_len = had + 1 + in_n;
	d = DEC_FN(&dec, &src, 1);
	V_CHECK("resume: malformed continuation is never turned into a message", IMP(ref == -2, d != 1));
	V_CHECK("resume: an incomplete frame is not a message", IMP(ref == -1, d != 1));
	V_CHECK("resume: a well-formed continuation is delivered or more space is asked for", IMP(ref >= 0, d == 1 || d == MPT_ERROR(MissingBuffer)));
	if (d == 1) {
		V_CHECK("resume: message length = bytes decoded before + reference continuation", ref >= 0 && dec.data.msg == (ssize_t) (had + (size_t) ref));
		V_CHECK("resume: continuation bytes are the reference decoder's (no invented or dropped zero at the block limit)", IMP(in_k < (size_t) ref, store[dec.data.pos + had + in_k] == ref_out[in_k]));
		V_CHECK("resume: earlier decoded bytes untouched", store[dec.data.pos] == 0x41 && store[dec.data.pos + had - 1] == 0x41);
		V_CHECK("resume: consumed exactly the frame", dec.curr == had + 1 + used);
	}
	V_COVER("maximal block followed by another block", d == 1 && in_code == REF_MAXLEN && ref >= RLEFT + 1);
	V_COVER("block one short of the maximum followed by another block", d == 1 && in_code == REF_MAXLEN - 1 && ref >= RLEFT + 2);
#if !REF_INLINE
	V_COVER("malformed", ref == -2);
#endif
	V_CANARY();
}
