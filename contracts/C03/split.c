/* C03 units dec_<framing>.split: one decoder state, a frame that was cut into two fragments, and a second frame
 * behind it.  The state after the first fragment is the one the decoder stores when it runs out of input inside a
 * block (code C, P of its data bytes decoded in place; unit dec_<framing>.suspend shows the real decoder produces
 * exactly this state) - three full decoder runs over symbolic input exhausted 10 GB in the SAT back end (measured).
 * Then NEW symbolic bytes arrive.  Whatever the cut position, the first and the second delivered message are the
 * ones the reference decoder delivers for the uncut stream: nothing of the earlier fragment or frame leaks into
 * the next frame (bounded stand-in: C <= 3, NEW bytes). */
#include "verif.h"
#include <sys/uio.h>
#include "message.h"
#include "convert.h"
#ifndef NEW
# define NEW 4
#endif
#define NB NEW
#ifndef DEC_FN
# define DEC_FN mpt_decode_cobs
# define REF_MAXLEN 255
# define REF_ZPE 0
# define REF_INLINE 0
#endif
#include "ref_decode.h"
#ifndef MAXC
# define MAXC 3
#endif
#define BUFSZ (MAXC + NEW)

#ifdef UNIT_SUSPEND
/* the state the real decoder leaves when the input ends inside the first block of a frame */
void harness(void)
{
	IN(uint8_t, in_code); IN(size_t, in_p); uint8_t in_data[MAXC]; static uint8_t store[BUFSZ]; V_FILL(in_data);
	MPT_STRUCT(decode_state) dec = MPT_DECODE_INIT; struct iovec src; size_t i; int d;
	V_REQ(in_code >= 1 && in_code <= MAXC && in_p <= (size_t) in_code - 1);
	store[0] = in_code;
	for (i = 0; i < MAXC - 1; i++) { V_REQ(in_data[i] != 0); store[1 + i] = in_data[i]; }
	src.iov_base = store; src.iov_len = 1 + in_p;
	d = DEC_FN(&dec, &src, 1);
	V_CHECK("suspend: input ending inside a block is 'incomplete'", d == 0);
	V_CHECK("suspend: stored state is (code, bytes of the block done), decoded bytes in place, all input consumed",
	        dec._ctx == (uintptr_t) in_p * 0x100 + in_code && dec.data.pos == 0 && dec.data.len == in_p && dec.data.msg < 0 && dec.curr == in_p + 1);
	V_CHECK("suspend: decoded bytes in place", IMP(in_p >= 1, store[0] == in_data[0]) && IMP(in_p >= 2, store[1] == in_data[1]));
	V_COVER("cut behind the last data byte of the block", in_p == (size_t) in_code - 1 && in_p == 2);
	V_CANARY();
}
#else
void harness(void)
{
	IN(uint8_t, in_code); IN(size_t, in_p); IN(size_t, in_k); uint8_t in_new[NEW]; V_FILL(in_new);
	static uint8_t store[BUFSZ]; uint8_t ref1_out[2 * NEW + 4], ref2_out[OUTMAX];
	MPT_STRUCT(decode_state) dec = MPT_DECODE_INIT; struct iovec src; size_t i, used1 = 0, used2 = 0, total; int d, ref1, ref2 = -1;
	V_REQ(in_code >= 1 && in_code <= MAXC && in_p <= (size_t) in_code - 1);
	for (i = 0; i < BUFSZ; i++) store[i] = 0x41;
	for (i = 0; i < NEW; i++) if (in_p + 1 + i < BUFSZ) store[in_p + 1 + i] = in_new[i];
	total = in_p + 1 + NEW;
	dec._ctx = (uintptr_t) in_p * 0x100 + in_code;
	dec.data.pos = 0; dec.data.len = in_p; dec.data.msg = -1; dec.curr = in_p + 1;
	ref1 = ref_resume(in_code, (unsigned) (in_code - 1 - in_p), in_new, NEW, ref1_out, &used1);
	V_REQ(ref1 >= 0);                                   /* the new bytes complete the cut frame */
	ref2 = ref_decode(in_new + used1, NEW - used1, ref2_out, &used2);
	src.iov_base = store; src.iov_len = total;
	d = DEC_FN(&dec, &src, 1);
	if (d == MPT_ERROR(MissingBuffer)) return;       /* zero-pair expansion without scratch space: documented refusal */
	V_CHECK("split: the cut frame is delivered", d == 1);
	if (d != 1) return;
	V_CHECK("split: first message = bytes decoded before the cut + reference continuation", dec.data.msg == (ssize_t) (in_p + (size_t) ref1) && dec.curr == in_p + 1 + used1);
	V_CHECK("split: first message bytes", IMP(in_k < (size_t) ref1, store[dec.data.pos + in_p + in_k] == ref1_out[in_k]) && IMP(in_p > 0, store[dec.data.pos] == 0x41));
#ifdef IDLE_POLL
	/* optionally the reader polls once more before any further byte has arrived (input ends exactly behind the frame);
	 * only in the small units: with it the larger thorough units exhaust 10 GB in the SAT back end (measured) */
	{
		IN(int, in_idle);
		if (in_idle) {
			struct iovec idle; int di;
			idle.iov_base = store; idle.iov_len = dec.curr;
			di = DEC_FN(&dec, &idle, 1);
			V_CHECK("split: a poll without new input reports 'nothing yet' and does not disturb the state", di == 0 || di == MPT_ERROR(MissingBuffer));
			if (di != 0) return;
		}
	}
#endif
	/* second frame on the same state */
	d = DEC_FN(&dec, &src, 1);
	if (d == MPT_ERROR(MissingBuffer)) return;
	V_CHECK("split: after a message the state is fresh: a malformed rest is refused, an incomplete rest is not a message", IMP(ref2 < 0, d != 1));
	V_CHECK("split: a well-formed second frame is delivered", IMP(ref2 >= 0, d == 1));
	if (d == 1) {
		V_CHECK("split: second message is the reference decoder's (length, consumed bytes)", ref2 >= 0 && dec.data.msg == (ssize_t) ref2 && dec.curr == in_p + 1 + used1 + used2);
		V_CHECK("split: second message is the reference decoder's (bytes)", IMP(in_k < (size_t) ref2, store[dec.data.pos + in_k] == ref2_out[in_k]));
	}
#if NEW >= 4 && MAXC >= 2
	V_COVER("cut inside a data run, second frame delivered", d == 1 && ref2 >= 0 && in_code >= 2 && in_p < (size_t) in_code - 1);
#endif
	V_COVER("second frame delivered", d == 1 && ref2 >= 0);
	V_CANARY();
}
#endif
