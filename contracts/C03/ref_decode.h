/* reference frame decoder written from the COBS definitions; parameters REF_MAXLEN, REF_ZPE, REF_INLINE, NB */
/* ---- reference decoder (specification) ----
 * result: >= 0 length of the message in out[], -1 incomplete, -2 malformed */
#define OUTMAX (2 * NB + 2)
static int ref_decode(const uint8_t *b, size_t n, uint8_t *out, size_t *used)
{
	size_t i = 0, o = 0; unsigned code, data, j;
	if (i >= n) return -1;
	code = b[i++];
	if (!code) return -2;                       /* leading / double delimiter */
	for (;;) {
		data = (REF_ZPE && code >= 0xe0) ? code - 0xe0 : code - 1;
		for (j = 0; j < data; j++) {
			uint8_t v;
			if (i >= n) return -1;
			v = b[i++];
			if (!v) {
#if REF_INLINE
				out[o++] = (uint8_t) code; *used = i; return (int) o;   /* COBS/R: the code byte was the last data byte */
#else
				return -2;                       /* zero inside a block */
#endif
			}
			out[o++] = v;
		}
		{
			unsigned next;
			if (i >= n) return -1;
			next = b[i++];
			if (REF_ZPE && code >= 0xe0) { out[o++] = 0; out[o++] = 0; }
			else if (code < REF_MAXLEN && next) { out[o++] = 0; }
			if (!next) { *used = i; return (int) o; }
			code = next;
		}
	}
}


/* reference continuation: b[] are the new bytes, block code `code` has `left` data bytes outstanding */
static int ref_resume(unsigned code, unsigned left, const uint8_t *b, size_t n, uint8_t *out, size_t *used)
{
	size_t i = 0, o = 0; unsigned j, data = left;
	for (;;) {
		for (j = 0; j < data; j++) {
			uint8_t v;
			if (i >= n) return -1;
			v = b[i++];
			if (!v) {
#if REF_INLINE
				out[o++] = (uint8_t) code; *used = i; return (int) o;
#else
				return -2;
#endif
			}
			out[o++] = v;
		}
		{
			unsigned next;
			if (i >= n) return -1;
			next = b[i++];
			if (REF_ZPE && code >= 0xe0) { out[o++] = 0; out[o++] = 0; }
			else if (code < REF_MAXLEN && next) { out[o++] = 0; }
			if (!next) { *used = i; return (int) o; }
			code = next;
			data = (REF_ZPE && code >= 0xe0) ? code - 0xe0 : code - 1;
		}
	}
}

