/* C03 / C17 unit dec_command.twoseg: the command decoder on a source that arrives as TWO fragments (a wrapped queue
 * region), cut at any position: the in-place header (message type + separator) and the command text form the same
 * message as on one contiguous fragment - byte k of the message is byte k of the concatenation - and nothing outside
 * the fragments' used parts is written.  Bounded: command text of <= NT bytes. */
#include "verif.h"
#include <sys/uio.h>
#include "message.h"
#include "convert.h"
#ifndef NT
# define NT 3
#endif
#define TOT (2 + NT + 1)
void harness(void)
{
	uint8_t in_text[NT + 1]; IN(size_t, in_n); IN(size_t, in_s); IN(size_t, in_k); IN(int, in_term);
	static uint8_t A[TOT + 1], B[TOT + 1]; struct iovec src[2]; MPT_STRUCT(decode_state) dec = MPT_DECODE_INIT;
	size_t i, total; int r; uint8_t flat[TOT];
	V_FILL(in_text);
	V_REQ(in_n <= NT);
	for (i = 0; i < NT; i++) V_REQ(i >= in_n || in_text[i] != 0);
	/* stream: two bytes of room for the header, the text, optionally the terminating zero */
	total = 2 + in_n + (in_term ? 1 : 0);
	V_REQ(in_s <= total);
	for (i = 0; i < TOT; i++) flat[i] = i < 2 ? 0xee : (i < 2 + in_n ? in_text[i - 2] : 0);
	for (i = 0; i <= TOT; i++) { A[i] = 0xaa; B[i] = 0xbb; }
	for (i = 0; i < TOT; i++) if (i < total) { if (i < in_s) A[i] = flat[i]; else B[i - in_s] = flat[i]; }
	src[0].iov_base = A; src[0].iov_len = in_s; src[1].iov_base = B; src[1].iov_len = total - in_s;
	dec.curr = 2;
	r = mpt_decode_command(&dec, src, 2);
#define FLATW(k_) ((k_) < in_s ? A[k_] : B[(k_) - in_s])
	V_CHECK("command: a terminated command is delivered, an unterminated one is incomplete", (r == 1) == (in_term != 0) && IMP(!in_term, r == 0));
	if (r == 1) {
		V_CHECK("command: message = header + text, at the start of the stream", dec.data.pos == 0 && dec.data.msg == (ssize_t) (2 + in_n) && dec.curr == total);
		V_CHECK("command: header bytes are in place also across the fragment boundary", FLATW(0) == MPT_MESGTYPE(Command) && FLATW(1) == ' ');
		V_CHECK("command: text untouched", IMP(in_k < in_n, FLATW(2 + in_k) == in_text[in_k]));
	}
	V_CHECK("command: nothing is written behind the used part of a fragment", A[in_s] == 0xaa && B[total - in_s] == 0xbb && A[TOT] == 0xaa && B[TOT] == 0xbb);
	V_COVER("header straddles the fragments", r == 1 && in_s == 1);
	V_COVER("text straddles the fragments", r == 1 && in_s == 3 && in_n >= 2);
	V_CANARY();
}
