/* C03 units dec_<framing>.anybytes: a frame decoder fed ANY NB bytes (bounded stand-in: NB symbolic bytes,
 * then optionally a second call with NB2 more) is memory safe, terminates, writes only into the part of the
 * input region it has already consumed, and either reports an error / 'incomplete' or delivers exactly
 * what the independent reference decoder (below, written from the COBS definitions) delivers. */
#include "verif.h"
#include <sys/uio.h>
#include "message.h"
#include "convert.h"
#ifndef NB
# define NB 6
#endif
#ifndef SLACK
# define SLACK 0
#endif
#ifndef DEC_FN
# define DEC_FN mpt_decode_cobs
# define REF_MAXLEN 255
# define REF_ZPE 0
# define REF_INLINE 0
#endif

#include "ref_decode.h"

void harness(void)
{
	uint8_t in_bytes[SLACK + NB], store[SLACK + NB], ref_out[OUTMAX]; IN(size_t, in_n); IN(size_t, in_k); V_FILL(in_bytes);
	MPT_STRUCT(decode_state) dec = MPT_DECODE_INIT; struct iovec src; size_t i, used = 0; int d, ref; uint8_t keep = 0;
	V_REQ(in_n <= NB);
	for (i = 0; i < SLACK + NB; i++) store[i] = in_bytes[i];
	if (in_k < SLACK + NB) keep = store[in_k];
	ref = ref_decode(in_bytes + SLACK, in_n, ref_out, &used);
	src.iov_base = store; src.iov_len = SLACK + in_n;
	dec.curr = SLACK;
	d = DEC_FN(&dec, &src, 1);
	V_CHECK("dec: verdict is one of the documented codes", d == 1 || d == 0 || d == MPT_ERROR(BadValue) || d == MPT_ERROR(MissingData) || d == MPT_ERROR(MissingBuffer) || d == MPT_ERROR(BadArgument) || d == MPT_ERROR(BadOperation));
	V_CHECK("dec: input position stays inside the data handed in", dec.curr <= SLACK + in_n);
	V_CHECK("dec: writes only into the already consumed part of the input region", IMP(in_k < SLACK + NB && in_k >= dec.curr, store[in_k] == keep));
	V_CHECK("dec: malformed input is never turned into a message", IMP(ref == -2, d != 1));
	V_CHECK("dec: an incomplete frame is not a message", IMP(ref == -1, d != 1));
	if (d == 1) {
		V_CHECK("dec: delivered message is the reference decoder's (length)", ref >= 0 && dec.data.msg == (ssize_t) ref && dec.data.len >= (size_t) ref);
		V_CHECK("dec: delivered message is the reference decoder's (bytes)", IMP(in_k < (size_t) ref, dec.data.pos + in_k < SLACK + NB && store[dec.data.pos + in_k] == ref_out[in_k]));
		V_CHECK("dec: consumed exactly the frame", dec.curr == SLACK + used);
		V_CHECK("dec: message lies in the consumed region", dec.data.pos + dec.data.len <= dec.curr);
	}
	V_CHECK("dec: a well-formed frame is delivered or more buffer space is asked for", IMP(ref >= 0, d == 1 || d == MPT_ERROR(MissingBuffer)));
#if SLACK >= NB
	V_CHECK("dec: with the space it may ask for a well-formed frame is delivered", IMP(ref >= 0, d == 1));
#endif
	V_COVER("message delivered", d == 1 && ref >= 2);
	V_COVER("malformed", ref == -2);
	V_COVER("incomplete", d == 0);
	V_CANARY();
}
