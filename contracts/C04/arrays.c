/* C04 units array.<op>: one handle `h` is operated on while an observer handle `o` may share its
 * buffer.  Whatever the operation does to h, o reads what it read before (length and every byte, ghost
 * index), the old buffer keeps exactly the holders it still has, and h reads what a plain value vector
 * would hold.  The buffer is the abstract one of common/bufstub.h (any conforming implementation). */
#include "../common/bufstub.h"

#define USER_FLAGS_OK(f_) (((f_) & ~(MPT_ENUM(BufferImmutable) | MPT_ENUM(BufferNoCopy))) == 0)

static const MPT_STRUCT(type_traits) *g_chr;
const MPT_STRUCT(type_traits) *mpt_type_traits(MPT_TYPE(type) t) { return t == 'c' ? g_chr : 0; }
void harness(void)
{
	IN(size_t, in_size); IN(size_t, in_used); IN(uintptr_t, in_refs); IN(int, in_flags); IN(int, in_has_buf);
	IN(int, in_alloc_fails); IN(size_t, in_k); IN(size_t, in_j);
	uint8_t in_content[BCAP], in_src[BCAP]; V_FILL(in_content); V_FILL(in_src);
	MPT_STRUCT(array) h = MPT_ARRAY_INIT, o = MPT_ARRAY_INIT;
	MPT_STRUCT(buffer) *b0 = &h_b0.b, *nb; const uint8_t *src_ = in_src;
	uint8_t ok_ = 0, oj_ = 0; size_t i, oused, nused; int shared, immutable;

	V_REQ(in_size <= BCAP && in_used <= in_size && in_refs >= 1 && in_refs <= 3 && USER_FLAGS_OK(in_flags));
	h_alloc_fails = in_alloc_fails != 0; h_init_fails = 0;
	if (in_has_buf) {
		H_SETUP(in_size, in_used, in_refs, in_flags, 0);
		for (i = 0; i < BCAP; i++) h_b0.data[i] = in_content[i];
		h._buf = b0;
		if (in_refs > 1) o._buf = b0;               /* the observer is one of the other holders */
	}
	shared = in_has_buf && in_refs > 1; immutable = in_has_buf && (in_flags & MPT_ENUM(BufferImmutable));
	oused = in_has_buf ? in_used : 0;
	if (in_k < BCAP) ok_ = in_content[in_k];
	if (in_j < BCAP) oj_ = in_src[in_j];

#if defined(UNIT_APPEND)
	{
		IN(size_t, in_len); IN(int, in_has_src); void *ret;
		V_REQ(in_len <= BCAP);
		if (!in_has_src) src_ = 0;
		ret = mpt_array_append(&h, in_len, src_);
		nb = h._buf;
		if (ret) {
			V_CHECK("append: length exact", nb != 0 && nb->_used == oused + in_len && nb->_used <= nb->_size);
			V_CHECK("append: old content kept", IMP(in_k < oused, H_BYTE(nb, in_k) == ok_));
			V_CHECK("append: new bytes are the source (zero filled without one)", IMP(in_j < in_len, H_BYTE(nb, oused + in_j) == (in_has_src ? oj_ : 0)));
			V_CHECK("append: returns the position of the new data", ret == H_DATA(nb) + oused);
		} else {
			V_CHECK("append: failure leaves the handle's content", h._buf == (in_has_buf ? b0 : 0) && IMP(in_has_buf, b0->_used == oused));
		}
		V_CHECK("append: fits and allocation works => succeeds", IMP(!h_alloc_fails && oused + in_len <= BCAP && !(shared && (in_flags & MPT_ENUM(BufferNoCopy)) && oused), ret != 0));
		V_COVER("appended into a shared buffer with free space", ret && shared && oused + in_len <= in_size && in_len > 0);
		V_COVER("grown", ret && nb != b0 && in_has_buf);
		V_COVER("first data", ret && !in_has_buf && in_len > 0);
	}
#elif defined(UNIT_STRING)
	{
		/* mpt_array_string on character data: the returned text is the handle's OWN content (also after the handle was
		 * moved to a private or larger buffer), terminated, with the old bytes in front; the observer is untouched */
		char *ret; static const MPT_STRUCT(type_traits) h_chr = MPT_TYPETRAIT_INIT(1);
		V_REQ(in_has_buf);
		b0->_content_traits = &h_chr; g_chr = &h_chr;
		ret = mpt_array_string(&h);
		nb = h._buf;
		if (ret) {
			V_CHECK("string: the text is the handle's own buffer content", nb != 0 && (const uint8_t *) ret == H_DATA(nb));
			V_CHECK("string: old characters kept, a terminator inside the used part", IMP(in_k < oused, H_BYTE(nb, in_k) == ok_) && nb->_used <= nb->_size && nb->_used >= oused && nb->_used <= oused + 1);
			V_CHECK("string: terminated within the used part", IMP(nb->_used == oused + 1, H_BYTE(nb, oused) == 0));
		} else {
			V_CHECK("string: failure leaves the handle's content", h._buf == b0 && b0->_used == oused);
		}
		V_COVER("terminator appended to a shared buffer (private copy)", ret && shared && nb != b0);
		V_COVER("terminator already inside", ret && nb == b0 && b0->_used == oused);
	}
#elif defined(UNIT_INSERT)
	{
		IN(size_t, in_pos); IN(size_t, in_len); uint8_t *ret; size_t base_, total;
		V_REQ(in_pos <= BCAP && in_len <= BCAP);
		ret = mpt_array_insert(&h, in_pos, in_len);
		nb = h._buf;
		base_ = in_pos > oused ? in_pos : oused; total = base_ + in_len;
		if (ret) {
			V_CHECK("insert: length exact", nb != 0 && nb->_used == total && nb->_used <= nb->_size && ret == H_DATA(nb) + in_pos);
			V_CHECK("insert: content before the position kept", IMP(in_k < oused && in_k < in_pos, H_BYTE(nb, in_k) == ok_));
			V_CHECK("insert: content behind moved up by len", IMP(in_k < oused && in_k >= in_pos, H_BYTE(nb, in_k + in_len) == ok_));
			V_CHECK("insert: gap between old end and position zero filled", IMP(in_k >= oused && in_k < in_pos, H_BYTE(nb, in_k) == 0));
		} else {
			V_CHECK("insert: failure leaves the handle's content", h._buf == (in_has_buf ? b0 : 0) && IMP(in_has_buf, b0->_used == oused));
		}
		V_CHECK("insert: fits, mutable and allocation works => succeeds", IMP(!h_alloc_fails && total <= BCAP && !immutable && !(shared && (in_flags & MPT_ENUM(BufferNoCopy)) && oused), ret != 0));
		V_COVER("inserted into a shared buffer", ret && shared && in_len > 0 && in_pos < oused);
		V_COVER("inserted behind the end", ret && in_pos > oused);
	}
#elif defined(UNIT_SLICE)
	{
		IN(size_t, in_off); IN(size_t, in_len); uint8_t *ret; size_t total;
		V_REQ(in_off <= BCAP && in_len <= BCAP);
		ret = mpt_array_slice(&h, in_off, in_len);
		nb = h._buf; total = in_off + in_len;
		if (ret) {
			V_CHECK("slice: covers the range, never shrinks", nb != 0 && nb->_used == (total > oused ? total : oused) && nb->_used <= nb->_size && ret == H_DATA(nb) + in_off);
			V_CHECK("slice: existing content kept", IMP(in_k < oused, H_BYTE(nb, in_k) == ok_));
			V_CHECK("slice: new range zero filled", IMP(in_k >= oused && in_k < total, H_BYTE(nb, in_k) == 0));
			V_CHECK("slice: the returned range is private and writable", h_refs[H_IDX(nb)] == 1 && !(h_uflags[H_IDX(nb)] & MPT_ENUM(BufferImmutable)));
		} else {
			V_CHECK("slice: failure leaves the handle's content", h._buf == (in_has_buf ? b0 : 0) && IMP(in_has_buf, b0->_used == oused));
		}
		V_CHECK("slice: fits and allocation works => succeeds", IMP(!h_alloc_fails && total <= BCAP && !(shared && (in_flags & MPT_ENUM(BufferNoCopy)) && oused), ret != 0));
		V_COVER("slice of a shared buffer", ret && shared);
		V_COVER("slice extends", ret && total > oused && in_has_buf);
	}
#elif defined(UNIT_REDUCE)
	{
		size_t r = mpt_array_reduce(&h);
		nb = h._buf;
		V_CHECK("reduce: content and length kept", IMP(in_has_buf, nb != 0 && nb->_used == oused && IMP(in_k < oused, H_BYTE(nb, in_k) == ok_)));
		V_CHECK("reduce: reports the capacity in effect", IMP(in_has_buf, r == nb->_size) && IMP(!in_has_buf, r == 0 && nb == 0));
		V_COVER("reduce of a shared buffer", shared && nb != b0);
	}
#elif defined(UNIT_RESERVE)
	{
		IN(size_t, in_len); MPT_STRUCT(buffer) *ret;
		V_REQ(in_len <= BCAP);
		ret = mpt_array_reserve(&h, in_len, 0);
		nb = h._buf;
		if (ret) {
			size_t keep = oused < in_len ? oused : (shared || immutable ? in_len : oused);
			V_CHECK("reserve: capacity as asked, private and writable", ret == nb && nb->_size >= in_len && h_refs[H_IDX(nb)] == 1 && !(h_uflags[H_IDX(nb)] & MPT_ENUM(BufferImmutable)));
			V_CHECK("reserve: content that fits is kept (content flagged no-copy excepted when a new buffer is required)", IMP(!((shared || immutable) && (in_flags & MPT_ENUM(BufferNoCopy))), nb->_used >= (oused < in_len ? oused : in_len) && nb->_used <= oused && IMP(in_k < nb->_used, H_BYTE(nb, in_k) == ok_)));
			(void) keep;
		} else {
			V_CHECK("reserve: failure leaves the handle's content", h._buf == (in_has_buf ? b0 : 0) && IMP(in_has_buf, b0->_used == oused));
		}
		V_CHECK("reserve: fits and allocation works => succeeds", IMP(!h_alloc_fails, ret != 0));
		V_COVER("reserve on a shared buffer copies", ret && shared && oused > 0 && !(in_flags & MPT_ENUM(BufferNoCopy)));
		V_COVER("reserve without buffer", ret && !in_has_buf);
	}
#endif
	/* ---- independence: the observer reads what it read before ---- */
	if (shared) {
		V_CHECK("independence: observer still holds its buffer, alive", o._buf == b0 && h_alive[0]);
		V_CHECK("independence: observer's length unchanged", b0->_used == oused);
		V_CHECK("independence: observer's bytes unchanged", IMP(in_k < oused, h_b0.data[in_k] == ok_));
		V_CHECK("independence: holders of the old buffer counted exactly", h_refs[0] == (h._buf == b0 ? in_refs : in_refs - 1));
	} else if (in_has_buf) {
		V_CHECK("ownership: a unique buffer is kept or released, never leaked", h._buf == b0 ? (h_alive[0] && h_refs[0] == 1) : !h_alive[0]);
	}
	V_CHECK("ownership: the handle holds exactly one reference of its buffer", IMP(h._buf != 0 && h._buf != b0, h_alive[H_IDX(h._buf)] && h_refs[H_IDX(h._buf)] == 1));
	V_CHECK("bounds: nothing written beyond the capacity of the old buffer", IMP(in_has_buf && h_alive[0] && in_k >= in_size && in_k < BCAP, h_b0.data[in_k] == ok_));
	V_CANARY();
}
