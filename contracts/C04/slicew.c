/* C04 unit slice.write: a slice (offset, length) into an array; writing blocks behind the slice must leave every
 * other holder of the buffer untouched, keep the slice's own content and append exactly the written blocks.
 * Abstract buffer of common/bufstub.h. */
#include "../common/bufstub.h"
#include <stdarg.h>
int mpt_log(MPT_INTERFACE(logger) *l, const char *f, int t, const char *fmt, ...) { (void) l; (void) f; (void) t; (void) fmt; return 0; }

void harness(void)
{
	IN(size_t, in_size); IN(size_t, in_used); IN(uintptr_t, in_refs); IN(int, in_flags); IN(size_t, in_off); IN(size_t, in_len);
	IN(size_t, in_nblk); IN(size_t, in_esz); IN(int, in_has_src); IN(int, in_alloc_fails); IN(size_t, in_k); IN(size_t, in_j);
	uint8_t in_content[BCAP], in_src[BCAP]; const uint8_t *src_ = in_src; V_FILL(in_content); V_FILL(in_src);
	MPT_STRUCT(slice) sl; MPT_STRUCT(buffer) *b0 = &h_b0.b, *nb; size_t i; ssize_t r; uint8_t ok_ = 0, oj_ = 0;
	V_REQ(in_size <= BCAP && in_used <= in_size && in_refs >= 1 && in_refs <= 2 && (in_flags & ~3) == 0);
	V_REQ(in_off <= in_used && in_len <= in_used - in_off);                 /* a consistent slice */
	V_REQ(in_esz >= 1 && in_esz <= 4 && in_nblk >= 1 && in_nblk <= 4 && in_nblk * in_esz <= BCAP);
	H_SETUP(in_size, in_used, in_refs, in_flags, 0);
	for (i = 0; i < BCAP; i++) h_b0.data[i] = in_content[i];
	h_alloc_fails = in_alloc_fails != 0; h_init_fails = 0;
	sl._a._buf = b0; sl._off = in_off; sl._len = in_len;
	if (in_k < BCAP) ok_ = in_content[in_k];
	if (in_j < BCAP) oj_ = in_src[in_j];
	if (!in_has_src) src_ = 0;
	r = mpt_slice_write(&sl, in_nblk, src_, in_esz);
	nb = sl._a._buf;
	if (r > 0) {
		size_t wrote = (size_t) r * in_esz;
		V_CHECK("write: whole blocks, at most as many as asked", (size_t) r <= in_nblk);
		V_CHECK("write: the slice grows by exactly the written blocks", sl._len == in_len + wrote && nb != 0 && sl._off + sl._len <= nb->_used && nb->_used <= nb->_size);
		V_CHECK("write: the slice's earlier content is kept", IMP(in_k >= in_off && in_k < in_off + in_len, H_BYTE(nb, sl._off + (in_k - in_off)) == ok_));
		V_CHECK("write: the new blocks hold the source (zeros without one)", IMP(in_j < wrote, H_BYTE(nb, sl._off + in_len + in_j) == (in_has_src ? oj_ : 0)));
	} else {
		V_CHECK("write: failure leaves the slice", sl._len == in_len || r == 0);
	}
	if (in_refs > 1) {
		V_CHECK("independence: the other holder's buffer, length and bytes are untouched", h_alive[0] && h_b0.b._used == in_used && IMP(in_k < in_used, h_b0.data[in_k] == ok_) && h_refs[0] == (nb == b0 ? in_refs : in_refs - 1));
	}
	V_COVER("private copy of a slice with offset", r > 0 && nb != b0 && in_off > 0 && in_len > 0);
	V_COVER("in place append", r > 0 && nb == b0);
	V_COVER("moved to the buffer front", r > 0 && nb == b0 && in_off > 0 && sl._off == 0);
	V_CANARY();
}
