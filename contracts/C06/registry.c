/* C06 units: the type registry (mptcore/types/type_traits.c) included as a translation unit so that
 * its file-scope tables can be put into an ARBITRARY state satisfying the registry invariant:
 *   dynamic : dynamic_types = 64 entries, dynamic_pos in 0..64
 *   generic : list of k full chunks (used == 30) followed by one partial chunk, k*30+used <= capacity
 *   meta    : same shape, entries are named_traits objects; interface: 64 slots, interface_pos in 16..64
 * Loops are bounded by the fixed table sizes (W). */
#include "verif.h"
#include <ctype.h>
#include <sys/uio.h>
#include "mptcore/types/type_traits.c"

/* the other built-in trait objects live in their own files */
static const MPT_STRUCT(type_traits) h_other = MPT_TYPETRAIT_INIT(sizeof(void *));
const MPT_STRUCT(type_traits) *mpt_identifier_traits(void) { return &h_other; }
const MPT_STRUCT(type_traits) *mpt_array_traits(void) { return &h_other; }
const MPT_STRUCT(type_traits) *mpt_meta_reference_traits(void) { return &h_other; }
const MPT_STRUCT(type_traits) *mpt_command_traits(void) { return &h_other; }
int atexit(void (*f)(void)) { (void) f; return 0; }   /*@assume: atexit handlers are not run */

#ifndef NCHUNK
# define NCHUNK 3
#endif
#define NLEN 8

static size_t builtin_size(int t)
{
	switch (t) {
	  case 'c': return sizeof(char); case 'b': return sizeof(int8_t); case 'y': return sizeof(uint8_t);
	  case 'n': return sizeof(int16_t); case 'q': return sizeof(uint16_t); case 'i': return sizeof(int32_t);
	  case 'u': return sizeof(uint32_t); case 'x': return sizeof(int64_t); case 't': return sizeof(uint64_t);
	  case 'f': return sizeof(float); case 'd': return sizeof(double); case 'e': return sizeof(long double);
	  case 's': return sizeof(char *);
	  case MPT_ENUM(TypeUnixSocket): return sizeof(int);
	  case MPT_ENUM(TypeFilePtr): case MPT_ENUM(TypeAddressPtr): case MPT_ENUM(TypeNodePtr): case MPT_ENUM(TypeReplyDataPtr): return sizeof(void *);
	  case MPT_ENUM(TypeValFmt): return sizeof(MPT_STRUCT(value_format));
	  case MPT_ENUM(TypeValue): return sizeof(MPT_STRUCT(value));
	  case MPT_ENUM(TypeProperty): return sizeof(MPT_STRUCT(property));
	  default: return 0;
	}
}

void harness(void)
{
#if defined(UNIT_BUILTIN)
	/* every built-in id reports the size of the C type it stands for; unregistered ids resolve to nothing */
	IN(int, in_id);
	const MPT_STRUCT(type_traits) *tr;
	V_REQ(in_id >= 0 && in_id <= 0x1100);
	tr = mpt_type_traits(in_id);
	if (in_id < MPT_ENUM(_TypeCoreSize) || MPT_type_isScalar(in_id)) {
		V_CHECK("builtin: core/scalar id registered exactly when it is a built-in, with the C type's size and no behaviour",
		        builtin_size(in_id) ? (tr != 0 && tr->size == builtin_size(in_id) && tr->init == 0 && tr->fini == 0) : tr == 0);
	}
	else if (MPT_type_isVector(in_id)) {
		int sc = in_id - MPT_ENUM(_TypeVectorBase) + MPT_ENUM(_TypeScalarBase);
		V_CHECK("builtin: vector of a built-in scalar is an iovec", builtin_size(sc) ? (tr != 0 && tr->size == sizeof(struct iovec) && !tr->init && !tr->fini) : tr == 0);
	}
	else if (MPT_type_isInterface(in_id)) {
		V_CHECK("builtin: interface ids 0x80..0x88 are pointers without behaviour, the rest of the range is free",
		        in_id <= MPT_ENUM(TypeSolverPtr) ? (tr != 0 && tr->size == sizeof(void *) && !tr->init && !tr->fini) : tr == 0);
		if (tr) {
			const MPT_STRUCT(named_traits) *nt = mpt_interface_traits(in_id);
			V_CHECK("builtin: interface id resolves to its own named entry", nt != 0 && nt->type == (MPT_TYPE(type)) in_id && nt->traits == tr && nt->name != 0);
			V_CHECK("builtin: looking the name up returns the id", mpt_named_traits(nt->name, -1) == nt);
		}
	}
	else if (MPT_type_isDynamic(in_id)) {
		V_CHECK("builtin: nothing registered in the dynamic range yet", tr == 0);
	}
	else if (MPT_type_isMetaPtr(in_id)) {
		V_CHECK("builtin: only the base metatype is registered", (in_id == MPT_ENUM(_TypeMetaPtrBase)) == (tr != 0) && IMP(tr, tr->size == sizeof(void *) && !tr->init && !tr->fini));
	}
	else if (in_id >= MPT_ENUM(_TypeValueAdd)) {
		V_CHECK("builtin: nothing registered in the generic range yet", tr == 0);
	}
	V_COVER("scalar", tr && in_id == 'd');
	V_COVER("interface", tr && in_id == MPT_ENUM(TypeIteratorPtr));
	V_COVER("unregistered", !tr && in_id > 0x20);
#elif defined(UNIT_NAMES)
	/* name <-> id on the built-in entries: exact, length-limited and alias forms */
	IN(int, in_i); IN(int, in_form);
	const MPT_STRUCT(named_traits) *nt; const char *name; char buf[24]; size_t n;
	V_REQ(in_i >= 0 && in_i < (int) MPT_arrsize(core_interfaces));
	name = core_interfaces[in_i].name; n = strlen(name);
	V_REQ(n + 4 < sizeof(buf));
	memcpy(buf, name, n); memcpy(buf + n, "xyz", 4);
	nt = in_form == 0 ? mpt_named_traits(name, -1) : mpt_named_traits(name, (int) n);
	V_CHECK("names: a registered name resolves to its identifier (exact and length-limited forms)", nt != 0 && nt->type == (MPT_TYPE(type)) core_interfaces[in_i].type && strcmp(nt->name, name) == 0);
	V_CHECK("names: and the identifier back to the same entry", mpt_interface_traits(nt->type) == nt);
	V_CHECK("names: length-limited lookup ignores what follows", mpt_named_traits("loggerxyz", 6) == mpt_named_traits("logger", -1) && mpt_named_traits("iterator: it", 8) == mpt_named_traits("iterator", -1));
	V_CHECK("names: a longer word is not the registered name", mpt_named_traits(buf, -1) == 0 && mpt_named_traits(buf, (int) n + 1) == 0);
	V_CHECK("names: a proper prefix is not the registered name", n < 2 || mpt_named_traits(name, (int) n - 1) == 0 || in_i < 0);
	V_CHECK("names: alias forms", mpt_named_traits("log", -1) == mpt_named_traits("logger", -1) && mpt_named_traits("iter", -1) == mpt_named_traits("iterator", -1)
	        && mpt_named_traits("out", -1) == mpt_named_traits("output", -1) && mpt_named_traits("meta", -1) != 0 && mpt_named_traits("meta", -1)->type == MPT_ENUM(_TypeMetaPtrBase));
	V_CHECK("names: unknown and empty names are refused", mpt_named_traits("nosuchname", -1) == 0 && mpt_named_traits("", -1) == 0 && mpt_named_traits(name, 0) == 0 && mpt_named_traits(0, -1) == 0);
	V_CHECK("names: integer type codes by width", mpt_type_int(1) == 'b' && mpt_type_int(2) == 'n' && mpt_type_int(4) == 'i' && mpt_type_int(8) == 'x' && mpt_type_int(3) == 0
	        && mpt_type_uint(1) == 'y' && mpt_type_uint(2) == 'q' && mpt_type_uint(4) == 'u' && mpt_type_uint(8) == 't' && mpt_type_uint(16) == 0);
	V_COVER("length limited lookup", in_form == 1 && nt);
#elif defined(UNIT_BASIC)
	/* mpt_type_basic_add from an arbitrary valid table state */
	IN(int, in_pos); IN(size_t, in_size); IN(int, in_k); IN(int, in_fresh);
	MPT_STRUCT(type_traits) old; int id; const MPT_STRUCT(type_traits) *tr;
	V_REQ(in_pos >= 0 && in_pos <= 64 && in_k >= 0 && in_k < 64);
	if (!in_fresh) {
		dynamic_types = malloc(64 * sizeof(*dynamic_types)); __CPROVER_assume(dynamic_types != 0);
		dynamic_pos = in_pos;
		memcpy(&old, &dynamic_types[in_k], sizeof(old));
	} else { V_REQ(in_pos == 0); }
	id = mpt_type_basic_add(in_size);
	V_CHECK("basic_add: exhausted range => error, nothing changes", IMP(in_pos == 64, id < 0 && dynamic_pos == 64));
	V_CHECK("basic_add: room => accepted", IMP(in_pos < 64, id >= 0));
	if (id >= 0) {
		V_CHECK("basic_add: id is the next one of the dynamic range (unique, in range)", id == MPT_ENUM(_TypeDynamicBase) + in_pos && MPT_type_isDynamic(id) && dynamic_pos == in_pos + 1);
		tr = mpt_type_traits(id);
		V_CHECK("basic_add: resolves to the registered size, no behaviour", tr != 0 && tr->size == (in_size ? in_size : sizeof(void *)) && !tr->init && !tr->fini);
		V_CHECK("basic_add: the next id is still unregistered", id == MPT_ENUM(_TypeDynamicMax) || mpt_type_traits(id + 1) == 0);
	}
	if (!in_fresh) V_CHECK("basic_add: existing entries undisturbed", IMP(in_k < in_pos, memcmp(&old, &dynamic_types[in_k], sizeof(old)) == 0));
	V_COVER("last slot", id == MPT_ENUM(_TypeDynamicMax));
	V_COVER("exhausted", id < 0);
	V_COVER("first use", in_fresh && id >= 0);
#elif defined(UNIT_GENERIC)
	/* mpt_type_add from an arbitrary chunk list */
	IN(int, in_full); IN(int, in_used); IN(int, in_kc); IN(int, in_ki); IN(size_t, in_size);
	struct generic_traits_chunk *ch[NCHUNK + 1]; const MPT_STRUCT(type_traits) *old = 0;
	static MPT_STRUCT(type_traits) reg[2] = { MPT_TYPETRAIT_INIT(0), MPT_TYPETRAIT_INIT(0) };
	int i, n, id, before;
	V_REQ(in_full >= 0 && in_full < NCHUNK && in_used >= 0 && in_used <= 30);
	/* list: in_full full chunks and (when in_used > 0 or the list is empty... ) a last chunk with in_used entries */
	n = in_full + 1;
	for (i = 0; i < NCHUNK; i++) {
		if (i < n) {
			ch[i] = malloc(sizeof(**ch)); __CPROVER_assume(ch[i] != 0);
			ch[i]->used = i < in_full ? 30 : in_used;
			ch[i]->next = 0;
			if (i) ch[i - 1]->next = ch[i];
		}
	}
	generic_types = ch[0];
	before = in_full * 30 + in_used;
	V_REQ(in_kc >= 0 && in_kc < n && in_ki >= 0 && in_ki < 30);
	old = ch[in_kc]->traits[in_ki];
	*((size_t *) &reg[0].size) = in_size;
	id = mpt_type_add(&reg[0]);
	V_CHECK("type_add: size 0 refused", IMP(in_size == 0, id < 0));
	if (id >= 0) {
		V_CHECK("type_add: id is the next one of the generic range (unique, in range)", id == MPT_ENUM(_TypeValueAdd) + before && id <= MPT_ENUM(_TypeValueMax));
		V_CHECK("type_add: resolves to the registered description", mpt_type_traits(id) == &reg[0]);
	} else {
		V_CHECK("type_add: refusal registers nothing", mpt_type_traits(MPT_ENUM(_TypeValueAdd) + before) == 0);
	}
	V_CHECK("type_add: existing entries undisturbed", IMP(in_kc * 30 + in_ki < before, ch[in_kc]->traits[in_ki] == old && mpt_type_traits(MPT_ENUM(_TypeValueAdd) + in_kc * 30 + in_ki) == old));
	V_COVER("new chunk appended", id >= 0 && in_used == 30);
	V_COVER("refused", id < 0);
#elif defined(UNIT_METAFULL)
	/* mpt_type_metatype_add near and at the end of the metatype range: a list of MCH chunks, all full but the last */
	IN(int, in_used);
	static struct named_traits_chunk mch[MCH]; static MPT_STRUCT(named_traits) anon;
	const MPT_STRUCT(named_traits) *ret; int i, j, before;
	V_REQ(in_used >= 0 && in_used <= 30);
	*((const void **) &anon.traits) = &pointer_traits; *((const char **) &anon.name) = 0;
	for (i = 0; i < MCH; i++) { for (j = 0; j < 30; j++) mch[i].traits[j] = &anon; mch[i].used = (i + 1 < MCH) ? 30 : in_used; mch[i].next = (i + 1 < MCH) ? &mch[i + 1] : 0; }
	meta_types = &mch[0];
	before = (MCH - 1) * 30 + in_used;
	ret = mpt_type_metatype_add(0);
	V_CHECK("metatype_add: an id is handed out exactly while the range has room", (ret != 0) == (MPT_ENUM(_TypeMetaPtrBase) + before <= MPT_ENUM(_TypeMetaPtrMax)) || (ret == 0 && in_used == 30));
	if (ret) {
		V_CHECK("metatype_add: the id is the next one and lies in the metatype range", ret->type == (MPT_TYPE(type)) (MPT_ENUM(_TypeMetaPtrBase) + before) && MPT_type_isMetaPtr(ret->type));
		V_CHECK("metatype_add: the id resolves to the new entry", mpt_metatype_traits(ret->type) == ret);
	} else {
		V_CHECK("metatype_add: refusal leaves the last chunk as it was", mch[MCH - 1].used == in_used);
	}
	V_COVER("last id of the range", ret && ret->type == MPT_ENUM(_TypeMetaPtrMax));
	V_COVER("range exhausted", !ret && in_used < 30);
#elif defined(UNIT_NAMED)
	/* mpt_type_metatype_add / mpt_type_interface_add: names unique, too short names refused */
	IN(int, in_used); IN(int, in_k); IN(int, in_same); IN(int, in_iface); IN(int, in_ipos);
	char in_name[NLEN + 1], in_other[NLEN + 1]; V_FILL(in_name); V_FILL(in_other);
	MPT_STRUCT(named_traits) *A, *B; const MPT_STRUCT(named_traits) *ret; size_t nlen; int i;
	in_name[NLEN] = 0; in_other[NLEN] = 0;
	nlen = strlen(in_name);
	V_REQ(strlen(in_other) >= 4);
	/* two existing registrations: A named in_other, B anonymous */
	A = malloc(sizeof(*A)); B = malloc(sizeof(*B)); __CPROVER_assume(A && B);
	*((const char **) &A->name) = in_other; *((const char **) &B->name) = 0;
	*((const void **) &A->traits) = &pointer_traits; *((const void **) &B->traits) = &pointer_traits;
#ifdef NAMED_IFACE
	{
		V_REQ(in_ipos >= 16 && in_ipos <= 64 && in_k >= 0 && in_k < 64);
		interface_types = malloc(64 * sizeof(*interface_types)); __CPROVER_assume(interface_types != 0);
		for (i = 0; i < 64; i++) interface_types[i] = (i == in_k) ? A : ((i & 1) ? B : 0);
		interface_pos = in_ipos;
		ret = mpt_type_interface_add(in_name);
		V_CHECK("interface_add: exhausted range refused without change", IMP(in_ipos == 64, ret == 0 && interface_pos == 64));
		V_CHECK("interface_add: duplicate name refused", IMP(in_k < in_ipos && strcmp(in_name, in_other) == 0, ret == 0 && interface_pos == in_ipos));
		V_CHECK("interface_add: name shorter than 4 refused", IMP(nlen < 4, ret == 0 && interface_pos == in_ipos));
		if (ret) {
			V_CHECK("interface_add: id is the next one of the interface range", ret->type == (MPT_TYPE(type)) (MPT_ENUM(_TypeInterfaceBase) + in_ipos) && MPT_type_isInterface(ret->type) && interface_pos == in_ipos + 1);
			V_CHECK("interface_add: described as a pointer, named as given", ret->traits->size == sizeof(void *) && !ret->traits->init && !ret->traits->fini && strcmp(ret->name, in_name) == 0 && ret->name != in_name);
			V_CHECK("interface_add: id and name resolve to the entry", mpt_interface_traits(ret->type) == ret);
		}
		V_CHECK("interface_add: existing entry undisturbed", IMP(in_k < in_ipos, interface_types[in_k] == A && A->name == in_other));
		V_COVER("registered", ret != 0);
		V_COVER("duplicate", ret == 0 && nlen >= 4 && in_ipos < 64);
	}
#else
	{
		struct named_traits_chunk *c0;
		V_REQ(in_used >= 1 && in_used <= 30 && in_k >= 0 && in_k < 30);
		c0 = malloc(sizeof(*c0)); __CPROVER_assume(c0 != 0);
		for (i = 0; i < 30; i++) c0->traits[i] = (i == in_k) ? A : B;
		c0->used = in_used; c0->next = 0; meta_types = c0;
		ret = mpt_type_metatype_add(in_name);
		V_CHECK("metatype_add: duplicate name refused", IMP(in_k < in_used && strcmp(in_name, in_other) == 0, ret == 0));
		V_CHECK("metatype_add: name shorter than 4 refused", IMP(nlen < 4, ret == 0));
		V_CHECK("metatype_add: refusal changes nothing", IMP(ret == 0, c0->used == in_used && c0->next == 0));
		if (ret) {
			V_CHECK("metatype_add: id is the next one of the metatype range", ret->type == (MPT_TYPE(type)) (MPT_ENUM(_TypeMetaPtrBase) + in_used) && MPT_type_isMetaPtr(ret->type));
			V_CHECK("metatype_add: described as a pointer, named as given", ret->traits->size == sizeof(void *) && !ret->traits->init && !ret->traits->fini && strcmp(ret->name, in_name) == 0 && ret->name != in_name);
			V_CHECK("metatype_add: id and name resolve to the entry", mpt_metatype_traits(ret->type) == ret && mpt_type_traits(ret->type) == ret->traits);
		}
		V_CHECK("metatype_add: existing entry undisturbed", IMP(in_k < in_used, c0->traits[in_k] == A && A->name == in_other));
		V_COVER("registered in a new chunk", ret != 0 && in_used == 30);
		V_COVER("duplicate", ret == 0 && nlen >= 4);
	}
#endif
#endif
	V_CANARY();
}
