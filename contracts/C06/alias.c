/* C06 unit alias.typeid: mpt_alias_typeid("name : symbol") resolves exactly the name in front of the colon, without
 * the blanks around it, through the registry's name lookup (stand-in recording what it is asked for), and reports
 * where the symbol part starts.  Bounded: descriptions of <= NS characters, any character classification. */
#include "verif.h"
#include <ctype.h>
#include <string.h>
#include "../C07/ctype_model.h"
#include "types.h"
#ifndef NS
# define NS 6
#endif
static const char *g_name; static int g_len, g_calls, g_known;
static MPT_STRUCT(named_traits) h_nt;
const MPT_STRUCT(named_traits) *mpt_named_traits(const char *name, int len)
{
	g_calls++; g_name = name; g_len = len;
	return g_known ? &h_nt : 0;
}
void harness(void)
{
	char in_desc[NS + 1]; IN(int, in_known); IN(int, in_has_end);
	const char *end = 0; int r, i, colon = -1, nlen, e;
	V_FILL(in_desc);
	H_CTYPE_INIT();
	in_desc[NS] = 0;
	g_known = in_known != 0; *((int *) &h_nt.type) = 0x123;
	/* reference: first colon, name = text before it without trailing blanks, symbol = text behind it without leading blanks */
	for (i = NS - 1; i >= 0; i--) if (in_desc[i] == ':') colon = i;
	for (i = 0; i < NS; i++) if (!in_desc[i] && (colon < 0 || i < colon)) { colon = -1; break; }     /* string ends before the colon */
	nlen = colon;
	for (i = NS - 1; i >= 0; i--) if (colon >= 0 && i < colon && nlen == i + 1 && isspace(in_desc[i])) nlen = i;
	r = mpt_alias_typeid(in_desc, in_has_end ? &end : 0);
	if (colon >= 0) {
		V_CHECK("alias: an empty or blank name in front of the colon is refused without lookup", IMP(nlen == 0, r < 0 && g_calls == 0));
		V_CHECK("alias: the lookup gets exactly the name in front of the colon, trailing blanks removed", IMP(nlen > 0, g_calls == 1 && g_name == in_desc && g_len == nlen));
	} else {
		V_CHECK("alias: without colon the whole description is the name", g_calls == 1 && g_name == in_desc && g_len < 0);
	}
	V_CHECK("alias: the registered id of a known name, an error for an unknown one", IMP(g_calls == 1, r == (g_known ? 0x123 : MPT_ERROR(BadValue))));
	if (r >= 0 && in_has_end) {
		e = (int) (end - in_desc);
		V_CHECK("alias: the symbol part starts behind the colon and its blanks (or at the end of the text)", e >= 0 && e <= NS && IMP(colon >= 0, e > colon && (in_desc[e] == 0 || !isspace(in_desc[e]))) && IMP(colon < 0, in_desc[e] == 0));
	}
	V_COVER("blank between name and colon", colon >= 2 && nlen == colon - 1 && r == 0x123);
	V_COVER("refused blank name", colon >= 1 && nlen == 0);
	V_CANARY();
}
