/* C11 unit dispatch.hash: "a command text whose hash is the id is delivered to the handler registered for that id".
 * mpt_dispatch_hash on a message of two fragments with any cut: the bytes that are hashed are exactly the command
 * word behind the two header bytes - the same bytes whether the word lies in one fragment or straddles the cut - and
 * the event goes to the handler registered for that hash, to the fallback otherwise.  The word length
 * (mpt_message_argv), the hash function and the table lookup are stand-ins of their own units. */
#include "verif.h"
#include <sys/uio.h>
#include <stdarg.h>
#include "message.h"
#include "output.h"
#include "event.h"
#ifndef NB
# define NB 6
#endif
static uint8_t h_a[NB + 1], h_b[NB + 1];
static size_t g_l0, g_total, g_wlen, g_hk; static int g_hashes, g_hlen; static uint8_t g_hbyte; static uintptr_t g_id;
static int g_handler_calls, g_fallback_calls, g_registered; static MPT_STRUCT(command) h_cmd;
int mpt_log(MPT_INTERFACE(logger) *l, const char *f, int t, const char *fmt, ...) { (void) l; (void) f; (void) t; (void) fmt; return 0; }
int mpt_context_reply(MPT_INTERFACE(reply_context) *r, int code, const char *fmt, ...) { (void) r; (void) code; (void) fmt; return 0; }
ssize_t mpt_message_argv(MPT_STRUCT(message) *msg, int sep) { (void) msg; (void) sep; return (ssize_t) g_wlen; }     /* own unit in C17 */
uintptr_t mpt_hash(const void *p, int len) { g_hashes++; g_hlen = len; if (len > 0 && g_hk < (size_t) len) g_hbyte = ((const uint8_t *) p)[g_hk]; return g_id; }
MPT_STRUCT(command) *mpt_command_get(const _MPT_UARRAY_TYPE(command) *arr, uintptr_t id) { (void) arr; return (g_registered && id == g_id) ? &h_cmd : 0; }
static int h_handler(void *arg, MPT_STRUCT(event) *ev) { (void) arg; g_handler_calls++; return ev && ev->id == g_id ? 0 : -1; }
static int h_fallback(void *arg, MPT_STRUCT(event) *ev) { (void) arg; (void) ev; g_fallback_calls++; return 0; }
#define FLATB(k_) ((k_) < g_l0 ? h_a[k_] : h_b[(k_) - g_l0])
void harness(void)
{
	uint8_t in_bytes[NB]; IN(size_t, in_total); IN(size_t, in_l0); IN(size_t, in_wlen); IN(size_t, in_k); IN(uintptr_t, in_id); IN(int, in_registered);
	MPT_STRUCT(dispatch) disp; MPT_STRUCT(event) ev = MPT_EVENT_INIT; MPT_STRUCT(message) msg = MPT_MESSAGE_INIT; struct iovec cont; size_t i; int r;
	V_FILL(in_bytes);
	V_REQ(in_total >= 3 && in_total <= NB && in_l0 <= in_total && in_wlen >= 1 && in_wlen <= in_total - 2);
	in_bytes[0] = MPT_MESGTYPE(Command); in_bytes[1] = ' ';
	for (i = 0; i < NB; i++) V_REQ(i < 2 || in_bytes[i] != 0);                  /* a word without terminator inside: the length is the stand-in's */
	g_l0 = in_l0; g_total = in_total; g_wlen = in_wlen; g_hk = in_k; g_id = in_id; g_registered = in_registered != 0;
	for (i = 0; i <= NB; i++) { h_a[i] = 0xaa; h_b[i] = 0xbb; }
	for (i = 0; i < NB; i++) if (i < in_total) { if (i < in_l0) h_a[i] = in_bytes[i]; else h_b[i - in_l0] = in_bytes[i]; }
	msg.base = h_a; msg.used = in_l0; cont.iov_base = h_b; cont.iov_len = in_total - in_l0; msg.cont = &cont; msg.clen = 1;
	{ static const MPT_STRUCT(dispatch) zero_; disp = zero_; } disp._err.cmd = h_fallback;
	h_cmd.cmd = h_handler; h_cmd.arg = 0; h_cmd.id = in_id;
	ev.msg = &msg;
	r = mpt_dispatch_hash(&disp, &ev);
	V_CHECK("hash: exactly the command word is hashed, once", g_hashes == 1 && g_hlen == (int) in_wlen);
	V_CHECK("hash: the hashed bytes are the word's bytes, whether it lies in one fragment or straddles the cut", IMP(in_k < in_wlen, g_hbyte == in_bytes[2 + in_k]));
	V_CHECK("hash: the event carries the hash as id and reaches the handler registered for it, else the fallback", ev.id == in_id && g_handler_calls == (g_registered ? 1 : 0) && g_fallback_calls == (g_registered ? 0 : 1));
	V_CHECK("hash: the caller's message is not consumed", msg.base == (void *) h_a && msg.used == in_l0 && msg.clen == 1);
	(void) r;
	V_COVER("word straddles the cut by one byte", in_l0 >= 3 && in_l0 == 2 + in_wlen - 1);
	V_COVER("word inside the first fragment", in_l0 >= 2 + in_wlen);
	V_CANARY();
}
