/* C11 units: the command table as a finite map id -> (handler, arg) over its live entries.
 * Handlers are stubs with a tracker per registration: `live` until the end-of-life notification
 * handler(arg, NULL); every invocation asserts that the registration is still alive, so "never invoked
 * after its end-of-life notification" and "exactly one end-of-life notification" are assertions.
 * The table lives in a typed abstract buffer (capacity NENT entries, one spare buffer for growth). */
#include "verif.h"
#include <errno.h>
#include <stdarg.h>
#include <inttypes.h>
#include <sys/uio.h>
#include "types.h"
#include "array.h"
#include "meta.h"
#include "message.h"
#include "output.h"
#include "event.h"

#ifndef NENT
# define NENT 3
#endif
typedef MPT_STRUCT(command) cmd_t;

/* ---- handler stubs and registration trackers ---- */
struct h_reg { int live, events, fins, ret; uintptr_t seen_id; };
static struct h_reg T[NENT + 2];           /* T[0..NENT): table entries, T[NENT]: new registration, T[NENT+1]: fallback */
static int g_invocations;
static int h_handler(void *arg, void *evp)
{
	struct h_reg *t = arg; MPT_STRUCT(event) *ev = evp;
	__CPROVER_assert(t->live, "handler: never invoked after its end-of-life notification (and notified at most once)");
	if (!ev) { t->live = 0; t->fins++; return 0; }
	t->events++; g_invocations++; t->seen_id = ev->id;
	return t->ret;
}
int mpt_log(MPT_INTERFACE(logger) *l, const char *f, int t, const char *fmt, ...) { (void) l; (void) f; (void) t; (void) fmt; return 0; }
static int g_replies;
int mpt_context_reply(MPT_INTERFACE(reply_context) *rc, int code, const char *fmt, ...) { (void) rc; (void) code; (void) fmt; g_replies++; return 0; }

/* ---- abstract typed buffer holding the table ---- */
struct h_cbuf { MPT_STRUCT(buffer) b; cmd_t ent[NENT + 1]; };
static struct h_cbuf h_c0, h_c1;
static int h_alive0, h_alive1, h_alloc_fails;
static uintptr_t h_refs0, h_refs1;
static uint32_t h_cflags(const MPT_STRUCT(buffer) *b) { (void) b; return MPT_ENUM(BufferNoCopy); }
static void h_cdestroy(struct h_cbuf *c)
{
	size_t i, n = c->b._used / sizeof(cmd_t);
	const MPT_STRUCT(type_traits) *tr = c->b._content_traits;
	for (i = 0; i < NENT + 1; i++) if (i < n && tr && tr->fini) tr->fini(&c->ent[i]);
}
static void h_cunref(MPT_STRUCT(buffer) *b)
{
	if (b == &h_c0.b) { __CPROVER_assert(h_alive0 && h_refs0, "unref of a live buffer"); if (!--h_refs0) { h_cdestroy(&h_c0); h_alive0 = 0; } }
	else { __CPROVER_assert(h_alive1 && h_refs1, "unref of a live buffer"); if (!--h_refs1) { h_cdestroy(&h_c1); h_alive1 = 0; } }
}
static uintptr_t h_caddref(MPT_STRUCT(buffer) *b) { return b == &h_c0.b ? ++h_refs0 : ++h_refs1; }
static MPT_STRUCT(buffer) *h_cdetach(MPT_STRUCT(buffer) *b, size_t len)
{
	size_t i;
	if (len <= b->_size) return b;
	/* growth: move the entries into the spare buffer, the old one is gone */
	if (h_alloc_fails || b != &h_c0.b || h_alive1 || len > sizeof(h_c1.ent)) return 0;
	h_c1.b._vptr = h_c0.b._vptr; h_c1.b._content_traits = h_c0.b._content_traits;
	*((size_t *) &h_c1.b._size) = sizeof(h_c1.ent); h_c1.b._used = h_c0.b._used;
	for (i = 0; i < NENT + 1; i++) h_c1.ent[i] = h_c0.ent[i];
	h_alive1 = 1; h_refs1 = 1; h_alive0 = 0; h_refs0 = 0;
	return &h_c1.b;
}
static const MPT_INTERFACE_VPTR(buffer) h_cvptr = { h_cflags, h_cunref, h_caddref, h_cdetach };
MPT_STRUCT(buffer) *_mpt_buffer_alloc(size_t len, int flags)
{
	(void) flags;
	if (h_alloc_fails || h_alive0 || len > sizeof(h_c0.ent)) return 0;
	h_c0.b._vptr = &h_cvptr; h_c0.b._content_traits = 0; *((size_t *) &h_c0.b._size) = sizeof(h_c0.ent); h_c0.b._used = 0;
	h_alive0 = 1; h_refs0 = 1;
	return &h_c0.b;
}

#define TABLE(disp_)  ((cmd_t *) ((disp_)->_d._buf + 1))

void harness(void)
{
	IN(size_t, in_n); IN(size_t, in_cap); IN(uintptr_t, in_id); IN(size_t, in_g);
	uintptr_t in_ids[NENT]; int in_set[NENT]; V_FILL(in_ids); V_FILL(in_set);
	MPT_STRUCT(dispatch) disp = MPT_DISPATCH_INIT; cmd_t *tab; size_t i, first = NENT, nlive = 0, empty = NENT;
	IN(int, in_has_table); IN(int, in_alloc_fails);

#ifdef N_FIXED
	/* the number of table entries is a constant in these units (one unit per value): the entry written by
	 * mpt_command_set then has a concrete address (symbolic byte offsets into a struct with function pointers exhaust CBMC) */
	in_n = N_FIXED;
#endif
	V_REQ(in_n <= NENT && in_cap >= in_n && in_cap <= NENT && in_g < NENT);
	h_alloc_fails = in_alloc_fails != 0;
	for (i = 0; i < NENT + 2; i++) { T[i].live = 0; T[i].events = T[i].fins = 0; }
	if (in_has_table) {
		h_c0.b._vptr = &h_cvptr; h_c0.b._content_traits = mpt_command_traits();
		*((size_t *) &h_c0.b._size) = in_cap * sizeof(cmd_t); h_c0.b._used = in_n * sizeof(cmd_t);
		h_alive0 = 1; h_refs0 = 1;
		for (i = 0; i < NENT; i++) {
			h_c0.ent[i].id = in_ids[i]; h_c0.ent[i].arg = &T[i];
			h_c0.ent[i].cmd = (i < in_n && in_set[i]) ? h_handler : 0;
			if (i < in_n && in_set[i]) { T[i].live = 1; nlive++; }
		}
		/* table invariant: live entries have pairwise different ids */
		for (i = 0; i < NENT; i++) { size_t j; for (j = 0; j < NENT; j++) V_REQ(IMP(i < j && T[i].live && T[j].live, in_ids[i] != in_ids[j])); }
		disp._d._buf = &h_c0.b;
	} else { V_REQ(in_n == 0); }
	for (i = 0; i < NENT; i++) { if (T[i].live && in_ids[i] == in_id && first == NENT) first = i; if (i < in_n && !T[i].live && empty == NENT) empty = i; }
	T[NENT].live = 1; T[NENT + 1].live = 1;
	g_invocations = 0; g_replies = 0;

#if defined(UNIT_LOOKUP)
	{
		cmd_t *f = mpt_command_get(&disp._d, in_id), *e = in_has_table ? mpt_command_empty(h_c0.ent, in_n) : 0;
		V_CHECK("get: the live entry registered for the id, none otherwise", first < NENT ? f == &h_c0.ent[first] : f == 0);
		V_CHECK("empty: the first free slot, none when all are live", IMP(in_has_table, empty < NENT ? e == &h_c0.ent[empty] : e == 0));
		V_CHECK("lookup: no handler invoked", g_invocations == 0 && T[in_g].fins == 0);
		V_COVER("found behind a free slot", first > 0 && first < NENT && !T[0].live);
	}
#elif defined(UNIT_SET)
	{
		/* mpt_command_set: register / replace / clear through the array API */
		IN(int, in_clear); int r; cmd_t *f;
		r = mpt_command_set(&disp._d, in_id, in_clear ? 0 : h_handler, in_clear ? 0 : &T[NENT]);
		f = mpt_command_get(&disp._d, in_id);
		if (r >= 0) {
			V_CHECK("set: the id now maps to the new registration (or to nothing when cleared)", in_clear ? f == 0 : (f != 0 && f->cmd == h_handler && f->arg == &T[NENT] && f->id == in_id));
			V_CHECK("set: a replaced or cleared registration got exactly one end-of-life notification", IMP(first < NENT, T[first].fins == 1 && !T[first].live));
			V_CHECK("set: the new registration is alive and not yet notified", IMP(!in_clear, T[NENT].live && T[NENT].fins == 0));
		} else {
			V_CHECK("set: failure changes no registration", T[NENT].fins == 0 && IMP(first < NENT, T[first].live));
		}
		V_CHECK("set: every other live registration untouched: still registered under its id, not notified", IMP(in_g != first && in_g < in_n && in_set[in_g] && in_has_table, T[in_g].live && T[in_g].fins == 0 && mpt_command_get(&disp._d, in_ids[in_g]) != 0 && mpt_command_get(&disp._d, in_ids[in_g])->arg == &T[in_g]));
		V_CHECK("set: no event delivered", g_invocations == 0);
		V_CHECK("set: room or free slot or working allocation => accepted", IMP(!h_alloc_fails && in_has_table && !in_clear, r >= 0) );
#if N_FIXED > 0
		V_COVER("free slot reused", r == 0 && !in_clear && first == NENT && empty < NENT);
		V_COVER("replaced", r == 0 && first < NENT && !in_clear);
		V_COVER("appended or grown", r == 1);
#else
		V_COVER("first registration", r == 1 && !in_has_table);
#endif
	}
#elif defined(UNIT_DSET)
	{
		/* mpt_dispatch_set: duplicate ids refused, clearing notifies once */
		IN(int, in_clear); int r; cmd_t *f;
		r = mpt_dispatch_set(&disp, in_id, in_clear ? 0 : (MPT_TYPE(event_handler)) h_handler, in_clear ? 0 : &T[NENT]);
		f = mpt_command_get(&disp._d, in_id);
		V_CHECK("dispatch_set: id already registered => refused, old registration untouched", IMP(!in_clear && first < NENT, r < 0 && T[first].live && T[first].fins == 0 && f == &h_c0.ent[first]));
		V_CHECK("dispatch_set: clearing an unknown id => refused", IMP(in_clear && first == NENT, r < 0));
		V_CHECK("dispatch_set: cleared registration notified exactly once and gone", IMP(in_clear && first < NENT, r >= 0 && T[first].fins == 1 && f == 0));
		V_CHECK("dispatch_set: new id registered", IMP(!in_clear && first == NENT && r >= 0, f != 0 && f->arg == &T[NENT] && f->cmd == h_handler));
		V_CHECK("dispatch_set: every other live registration untouched", IMP(in_g != first && in_g < in_n && in_set[in_g] && in_has_table, T[in_g].live && T[in_g].fins == 0));
		V_CHECK("dispatch_set: no event delivered", g_invocations == 0);
#if N_FIXED > 0
		V_COVER("cleared", in_clear && r >= 0);
		V_COVER("duplicate refused", !in_clear && first < NENT);
#else
		V_COVER("registered into an empty dispatcher", !in_clear && r >= 0);
#endif
	}
#elif defined(UNIT_FINI)
	{
		IN(int, in_has_err);
		disp._err.cmd = in_has_err ? (MPT_TYPE(event_handler)) h_handler : 0; disp._err.arg = &T[NENT + 1];
		mpt_dispatch_fini(&disp);
		V_CHECK("fini: every live registration got exactly one end-of-life notification", IMP(in_g < in_n && in_set[in_g] && in_has_table, T[in_g].fins == 1 && !T[in_g].live));
		V_CHECK("fini: free slots were not notified", IMP(!(in_g < in_n && in_set[in_g] && in_has_table), T[in_g].fins == 0));
		V_CHECK("fini: the fallback handler is notified once", T[NENT + 1].fins == (in_has_err ? 1 : 0));
		V_CHECK("fini: table released, dispatcher empty", disp._d._buf == 0 && disp._def == 0 && disp._err.cmd == 0 && IMP(in_has_table, !h_alive0));
		V_CHECK("fini: no event delivered", g_invocations == 0);
		V_COVER("several live registrations", nlive >= 2);
	}
#elif defined(UNIT_EMIT)
	{
		IN(int, in_mode); IN(int, in_ret); IN(uintptr_t, in_def); IN(int, in_has_err); IN(uint8_t, in_first_byte);
		MPT_STRUCT(event) ev = MPT_EVENT_INIT; MPT_STRUCT(message) msg = MPT_MESSAGE_INIT; uint8_t mb[2]; int r;
		uintptr_t want_id; size_t k, target = NENT;
		for (k = 0; k < NENT + 2; k++) T[k].ret = in_ret;
		disp._def = in_def; disp._err.cmd = in_has_err ? (MPT_TYPE(event_handler)) h_handler : 0; disp._err.arg = &T[NENT + 1];
		V_REQ(in_mode >= 0 && in_mode <= 2);
		mb[0] = in_first_byte; mb[1] = 0; msg.base = mb; msg.used = 2;
		if (in_mode == 0) { ev.id = in_id; want_id = in_id; r = mpt_dispatch_emit(&disp, &ev); }
		else if (in_mode == 1) { ev.msg = &msg; ev.id = ~(uintptr_t) 0; want_id = in_first_byte; r = mpt_dispatch_emit(&disp, &ev); }
		else { want_id = in_def; r = mpt_dispatch_emit(&disp, 0); }
		for (k = 0; k < NENT; k++) if (T[k].live && in_ids[k] == want_id && target == NENT) target = k;
		if (in_mode == 2 && !in_def) {
			V_CHECK("emit(default): no default event => nothing happens", r == 0 && g_invocations == 0);
		} else if (target < NENT) {
			V_CHECK("emit: delivered to the handler registered for the id, exactly once", T[target].events == 1 && g_invocations == 1 && T[target].seen_id == want_id);
			V_CHECK("emit: and to no other handler", T[NENT + 1].events == 0 && IMP(in_g != target, T[in_g].events == 0));
		} else if (in_mode == 2) {
			V_CHECK("emit(default): dangling default id is dropped with an error, no handler runs", r < 0 && g_invocations == 0 && disp._def == 0);
		} else if (in_has_err) {
			V_CHECK("emit: unknown id goes to the fallback handler only", T[NENT + 1].events == 1 && g_invocations == 1 && T[in_g].events == 0);
		} else {
			V_CHECK("emit: unknown id without fallback is an error, no handler runs", r < 0 && g_invocations == 0);
		}
		if (g_invocations == 1) {
			uintptr_t evid = (in_mode == 2) ? in_def : ev.id;
			V_CHECK("emit: a failing handler's error is returned, default bookkeeping untouched", IMP(in_ret < 0, r == in_ret && disp._def == in_def));
			V_CHECK("emit: the Default flag of the handler makes the event id the default event", IMP(in_ret >= 0 && (in_ret & MPT_EVENTFLAG(Default)), disp._def == evid));
			V_CHECK("emit: without the Default flag the default event is unchanged", IMP(in_ret >= 0 && !(in_ret & MPT_EVENTFLAG(Default)), disp._def == in_def));
			V_CHECK("emit: the result carries Default exactly when a default event is pending", IMP(in_ret >= 0, ((r & MPT_EVENTFLAG(Default)) != 0) == (disp._def != 0) && (r & ~MPT_EVENTFLAG(Default)) == (in_ret & ~MPT_EVENTFLAG(Default))));
		}
		V_CHECK("emit: no registration ends", T[in_g].fins == 0 && T[NENT + 1].fins == 0);
		V_COVER("message first byte selects the handler", in_mode == 1 && target < NENT);
		V_COVER("fallback", target == NENT && in_has_err && g_invocations == 1);
		V_COVER("default event replaced", g_invocations == 1 && in_def && disp._def && disp._def != in_def);
	}
#endif
	V_CANARY();
}
