/* C18 units linepart.code / linepart.join: loop-free, full domain */
#include "verif.h"
#include <sys/uio.h>
#include "types.h"
#include "values.h"

void harness(void)
{
#if defined(UNIT_JOIN)
	IN(uint16_t, a_raw); IN(uint16_t, a_usr); IN(uint16_t, a_cut); IN(uint16_t, a_trim);
	IN(uint16_t, b_raw); IN(uint16_t, b_usr); IN(uint16_t, b_cut); IN(uint16_t, b_trim);
	MPT_STRUCT(linepart) a, b, *r;
	a.raw = a_raw; a.usr = a_usr; a._cut = a_cut; a._trim = a_trim; b.raw = b_raw; b.usr = b_usr; b._cut = b_cut; b._trim = b_trim;
	r = mpt_linepart_join(&a, b);
	V_CHECK("join: totals of raw and drawn points are preserved", IMP(r, r == &a && (unsigned) a.raw == (unsigned) a_raw + b_raw && (unsigned) a.usr == (unsigned) a_usr + b_usr));
	V_CHECK("join: the start fraction of the first part is kept", IMP(r, a._cut == a_cut));
	V_CHECK("join: refused when a total does not fit 16 bit", IMP((unsigned) a_raw + b_raw > 65535 || (unsigned) a_usr + b_usr > 65535, r == 0));
	V_CHECK("join: refused when a trim/cut lies between the parts or the first part skips points", IMP(a_trim || b_cut || a_usr != a_raw, r == 0));
	V_CHECK("join: refusal leaves the first part", IMP(!r, a.raw == a_raw && a.usr == a_usr && a._cut == a_cut && a._trim == a_trim));
	V_COVER("joined", r != 0 && b_raw > 0);
	V_COVER("refused", r == 0);
#else
	IN(double, in_v); IN(double, in_w); int c, d;
	V_REQ(in_v == in_v && in_w == in_w);   /* real fractions: no NaN */
	c = mpt_linepart_code(in_v);
	V_CHECK("code: values outside [0,1] have no code", IMP(!(in_v >= 0 && in_v <= 1), c < 0));
	V_CHECK("code: a fraction maps into the 16 bit range", IMP(in_v >= 0 && in_v <= 1, c >= 0 && c <= 65535));
	V_CHECK("code: zero is zero", IMP(in_v == 0, c == 0));
	d = mpt_linepart_code(in_w);
	V_CHECK("code: monotone", IMP(in_v >= 0 && in_w <= 1 && in_v <= in_w, c <= d));
	V_CHECK("code: decoding reproduces the fraction to the precision of the 16 bit encoding", IMP(in_v >= 1.0 / 65536 && in_v <= 1 && c < 65535, mpt_linepart_real(c) <= in_v && in_v - mpt_linepart_real(c) < 1.0 / 65536));
	V_COVER("upper clip", c == 65535);
	V_COVER("smallest step", c == 1);
#endif
	V_CANARY();
}
