/* C18 unit parts.partition (bounded): the caller's loop "part = linear(from + pos, len - pos); pos += part.raw"
 * over every sequence of <= NPT real values (no NaN) and every range: progress, every input point
 * consumed exactly once, every in-range point in the drawn portion of exactly one part, no out-of-range
 * interior point drawn, cut/trim fractions only at out-of-range end points. */
#include "verif.h"
#include <sys/uio.h>
#include "types.h"
#include "values.h"
#ifndef NPT
# define NPT 5
#endif
#define INR(x_)  (!((x_) < rg.min) && !((x_) > rg.max))
/* mpt_linepart_code is replaced by its contract (proved in unit linepart.code): any code in [0,65535] for a
 * fraction, negative otherwise; the fraction itself (a floating point quotient) is not inspected here, which
 * also keeps the division circuits out of the formula */
int h_linepart_code_nd(void) { int code; V_ND(int, code); __CPROVER_assume(code >= -2 && code <= 65535); return code; }

void harness(void)
{
	double in_v[NPT]; IN(double, in_min); IN(double, in_max); IN(size_t, in_len); IN(int, in_has_range); V_FILL(in_v);
	MPT_STRUCT(range) rg; MPT_STRUCT(linepart) pt; size_t pos = 0, i, drawn[NPT], consumed = 0; int parts = 0;
	V_REQ(in_len <= NPT && in_min == in_min && in_max == in_max && in_min <= in_max);
	for (i = 0; i < NPT; i++) { V_REQ(in_v[i] == in_v[i]); drawn[i] = 0; }   /* real values: no NaN */
	rg.min = in_min; rg.max = in_max;
	while (pos < in_len && parts < NPT + 1) {
		size_t left = in_len - pos;
		pt.raw = pt.usr = pt._cut = pt._trim = 0x7777;
		mpt_linepart_linear(&pt, in_v + pos, left, in_has_range ? &rg : 0);
		V_CHECK("part: makes progress and stays within the input", pt.raw >= 1 && pt.raw <= left);
		V_CHECK("part: drawn points are a prefix of the consumed ones plus at most the clipping end point", pt.usr <= (size_t) pt.raw + 1 && pos + pt.usr <= in_len);
		if (in_has_range) {
			V_CHECK("part: no out-of-range interior point is drawn", IMP(pt.usr >= 3, INR(in_v[pos + 1]) && IMP(pt.usr >= 4, INR(in_v[pos + 2])) && IMP(pt.usr >= 5, INR(in_v[pos + 3]))));
			V_CHECK("part: a cut fraction only where the line enters the range", IMP(pt._cut, pt.usr >= 2 && !INR(in_v[pos]) && INR(in_v[pos + 1])));
			V_CHECK("part: a trim fraction only where the line leaves the range", IMP(pt._trim, pt.usr >= 2 && !INR(in_v[pos + pt.usr - 1]) && INR(in_v[pos + pt.usr - 2])));
			V_CHECK("part: a drawn first point outside the range is clipped by a cut (or sits exactly on the boundary line)", IMP(pt.usr >= 2 && !INR(in_v[pos]), INR(in_v[pos + 1])));
		} else {
			V_CHECK("part: without a range everything is drawn unclipped", pt.usr == pt.raw && pt._cut == 0 && pt._trim == 0 && pt.raw == (left > 65535 ? 65535 : left));
		}
		for (i = 0; i < NPT; i++) if (i >= pos && i < pos + pt.usr) drawn[i]++;
		consumed += pt.raw; pos += pt.raw; parts++;
	}
	V_CHECK("partition: the parts consume every input point exactly once", pos == in_len && consumed == in_len);
	if (in_has_range) for (i = 0; i < NPT; i++) {
		V_CHECK("partition: every in-range point lies in the drawn portion of exactly one part", IMP(i < in_len && INR(in_v[i]), drawn[i] == 1));
	}
	V_COVER("line leaves and re-enters the range", parts >= 2 && in_has_range && in_len == NPT);
	V_COVER("run of invisible points", in_has_range && in_len >= 4 && !INR(in_v[1]) && !INR(in_v[2]) && INR(in_v[3]));
	V_CANARY();
}
