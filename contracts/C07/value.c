/* C07 unit value.convert: the dispatcher mpt_value_convert / mpt_data_converter selects the converter by the
 * SOURCE type code; for every scalar source type, every bit pattern of the source and every scalar target the
 * result is exact or refused, as in the per-type units, but reached through the dispatch table. */
#include "verif.h"
#include <ctype.h>
#include <sys/uio.h>
#include "types.h"
#include "convert.h"
#include "ctype_model.h"

typedef union { char c; int8_t b; uint8_t y; int16_t n; uint16_t q; int32_t i; uint32_t u; int64_t x; uint64_t t;
                float f; double d; long double e; uint8_t raw[32]; } out_t;
#define IS_INT_CODE(t_) ((t_) == 'b' || (t_) == 'y' || (t_) == 'n' || (t_) == 'q' || (t_) == 'i' || (t_) == 'u' || (t_) == 'x' || (t_) == 't')
static __int128 as_int(int t, const out_t *o)
{
	switch (t) { case 'b': return o->b; case 'y': return o->y; case 'n': return o->n; case 'q': return o->q; case 'i': return o->i;
	             case 'u': return o->u; case 'x': return o->x; default: return o->t; }
}
const MPT_STRUCT(type_traits) *mpt_type_traits(MPT_TYPE(type) t) { (void) t; return 0; }
const char *mpt_data_tostring(const void **from, MPT_TYPE(type) type, size_t *len) { (void) from; (void) type; (void) len; return 0; }
int mpt_data_convert_array(const MPT_STRUCT(array) *from, MPT_TYPE(type) type, void *dest) { (void) from; (void) type; (void) dest; return MPT_ERROR(BadType); }

void harness(void)
{
	out_t in_src, out; IN(int, in_st); IN(int, in_tt); IN(int, in_has_dest);
	MPT_STRUCT(value) val; int r; size_t k;
	H_CTYPE_INIT();
	V_REQ(IS_INT_CODE(in_st) && IS_INT_CODE(in_tt));
	for (k = 0; k < sizeof(out.raw); k++) out.raw[k] = 0xA5;
	val._addr = &in_src; val._type = in_st;
	r = mpt_value_convert(&val, in_tt, in_has_dest ? &out : 0);
	V_CHECK("dispatch: integer to integer is exact or refused, whatever the source type code", IMP(r >= 0 && in_has_dest, as_int(in_tt, &out) == as_int(in_st, &in_src)));
	V_CHECK("dispatch: a value representable in the target is accepted", IMP(r < 0, !(in_st == in_tt)));
	V_CHECK("dispatch: refusal stores nothing", IMP(r < 0, out.raw[0] == 0xA5));
	V_COVER("unsigned 16 bit source above the signed range", r >= 0 && in_st == 'q' && in_src.q >= 32768 && in_tt == 'i');
	V_COVER("refused", r < 0);
	V_CANARY();
}
