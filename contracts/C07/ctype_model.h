/* A-ctype: glibc's classification macros are (*__ctype_b_loc())[c] over a 384 entry table indexed
 * -128..255 with arbitrary contents (locale); an argument outside that range is an out-of-bounds
 * read in production exactly as it is here */
#ifndef CTYPE_MODEL_H
#define CTYPE_MODEL_H
#ifndef VERIF_NATIVE
static unsigned short h_ctype_tab[384];
const unsigned short **__ctype_b_loc(void)
{
	static const unsigned short *p;
	p = h_ctype_tab + 128;
	return &p;
}
/* statics are zero initialised: make the table contents arbitrary at the start of every harness */
# define H_CTYPE_INIT() __CPROVER_havoc_object(h_ctype_tab)
#else
# define H_CTYPE_INIT() do { } while (0)
#endif
#endif
