/* C07 unit consume: mpt_iterator_consume converts the current value and advances; an error of either
 * step is reported as an error and nothing is stored */
#include "verif.h"
#include <sys/uio.h>
#include "types.h"
#include "convert.h"
#include "ctype_model.h"

static MPT_STRUCT(value) g_value; static int g_has_value, g_adv_ret, g_advances;
static const MPT_STRUCT(value) *h_value(MPT_INTERFACE(iterator) *it) { (void) it; return g_has_value ? &g_value : 0; }
static int h_advance(MPT_INTERFACE(iterator) *it) { (void) it; g_advances++; return g_adv_ret; }
static int h_reset(MPT_INTERFACE(iterator) *it) { (void) it; return 0; }
static const MPT_INTERFACE_VPTR(iterator) h_it_vptr = { h_value, h_advance, h_reset };

void harness(void)
{
	IN(int32_t, in_val); IN(int, in_type); IN(int, in_has_value); IN(int, in_adv_ret); IN(int, in_has_dest);
	MPT_INTERFACE(iterator) it = { &h_it_vptr };
	union { int8_t b; int16_t n; int32_t i; int64_t x; uint8_t raw[32]; } out; size_t k; int ret;
	int32_t src = in_val;
	H_CTYPE_INIT();
	V_REQ(in_type == 'b' || in_type == 'n' || in_type == 'i' || in_type == 'x' || in_type == 0);
	g_value._addr = &src; g_value._type = 'i';
	g_has_value = in_has_value != 0; g_adv_ret = in_adv_ret; g_advances = 0;
	for (k = 0; k < sizeof(out.raw); k++) out.raw[k] = 0xA5;
	ret = mpt_iterator_consume(&it, in_type, in_has_dest ? &out : 0);
	V_CHECK("consume: a failing advance is reported as failure", IMP(g_advances && in_adv_ret < 0, ret < 0));
	V_CHECK("consume: success => advanced exactly once", IMP(ret >= 0, g_advances == 1));
	V_CHECK("consume: no current value => error (typed request)", IMP(in_type && !g_has_value, ret < 0 && g_advances == 0));
	if (ret >= 0 && in_type && in_has_dest) {
		__int128 got = in_type == 'b' ? (__int128) out.b : in_type == 'n' ? (__int128) out.n : in_type == 'i' ? (__int128) out.i : (__int128) out.x;
		V_CHECK("consume: delivered value denotes the source number", got == (__int128) in_val);
	}
	V_CHECK("consume: the same verdict with and without destination: an unrepresentable value is refused either way", IMP(g_has_value && ((in_type == 'b' && (in_val < -128 || in_val > 127)) || (in_type == 'n' && (in_val < -32768 || in_val > 32767))), ret < 0 && g_advances == 0));
	V_CHECK("consume: refused conversion => not advanced, nothing stored", IMP(ret < 0 && !(g_advances && in_adv_ret < 0), g_advances == 0 && out.raw[0] == 0xA5));
	V_COVER("narrowing accepted", ret >= 0 && in_type == 'b' && in_has_dest);
	V_COVER("narrowing refused", ret < 0 && in_type == 'b' && g_has_value);
	V_COVER("advance failed", g_advances && in_adv_ret < 0);
	V_CANARY();
}
