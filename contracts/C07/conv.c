/* C07 units conv.<source type>: mpt_data_convert_<T>(from, target type, dest) is exact or refused,
 * for every source value (full domain) and every scalar target code at once (loop-free => complete). */
#include "verif.h"
#include <ctype.h>
#include <limits.h>
#include <sys/uio.h>
#include "types.h"
#include "convert.h"
#include "ctype_model.h"

/* -DSRC_T=int32_t -DSRC_FN=mpt_data_convert_int32 -DSRC_CODE='i' [-DSRC_FLOAT] */
typedef SRC_T src_t;
typedef union { char c; int8_t b; uint8_t y; int16_t n; uint16_t q; int32_t i; uint32_t u; int64_t x; uint64_t t;
                float f; double d; long double e; uint8_t raw[32]; } out_t;

#define IS_SCALAR(t_) ((t_) == 'c' || (t_) == 'b' || (t_) == 'y' || (t_) == 'n' || (t_) == 'q' || (t_) == 'i' || (t_) == 'u' || \
                       (t_) == 'x' || (t_) == 't' || (t_) == 'f' || (t_) == 'd' || (t_) == 'e' || (t_) == 'l')
static size_t tsize(int t)
{
	switch (t) { case 'c': case 'b': case 'y': return 1; case 'n': case 'q': return 2; case 'i': case 'u': case 'f': return 4;
	             case 'x': case 't': case 'd': case 'l': return 8; case 'e': return sizeof(long double); default: return 0; }
}
/* the stored target denotes the same number as the source (compared in a type that holds both exactly:
 * __int128 for integer pairs, long double - 64 bit significand - when a floating type is involved) */
static int same_number(int t, const out_t *o, src_t v)
{
#ifdef SRC_FLOAT
	long double s = (long double) v;
	if (v != v) {   /* NaN denotes NaN */
		switch (t) { case 'f': return o->f != o->f; case 'd': return o->d != o->d; case 'e': return o->e != o->e; default: return 0; }
	}
	switch (t) {
	  case 'f': return (long double) o->f == s; case 'd': return (long double) o->d == s; case 'e': return o->e == s;
	  case 'b': return (long double) o->b == s; case 'y': return (long double) o->y == s; case 'n': return (long double) o->n == s;
	  case 'q': return (long double) o->q == s; case 'i': return (long double) o->i == s; case 'u': return (long double) o->u == s;
	  case 'x': case 'l': return (long double) o->x == s; case 't': return (long double) o->t == s;
	  case 'c': return (long double) (unsigned char) o->c == s;
	  default: return 0;
	}
#else
	__int128 s = (__int128) v;
	switch (t) {
	  case 'b': return (__int128) o->b == s; case 'y': return (__int128) o->y == s; case 'n': return (__int128) o->n == s;
	  case 'q': return (__int128) o->q == s; case 'i': return (__int128) o->i == s; case 'u': return (__int128) o->u == s;
	  case 'x': case 'l': return (__int128) o->x == s; case 't': return (__int128) o->t == s;
	  case 'c': return (__int128) (unsigned char) o->c == s || (__int128) o->c == s;     /* a character is its byte value */
	  case 'f': return (long double) o->f == (long double) v;
	  case 'd': return (long double) o->d == (long double) v;
	  case 'e': return o->e == (long double) v;
	  default: return 0;
	}
#endif
}

extern int SRC_FN(const src_t *, MPT_TYPE(type), void *);

void harness(void)
{
	IN(src_t, in_val); IN(int, in_type);
	out_t out; int r0, r1; size_t k;
	src_t v = in_val;
	H_CTYPE_INIT();
	V_REQ(IS_SCALAR(in_type));
	for (k = 0; k < sizeof(out.raw); k++) out.raw[k] = 0xA5;
	r0 = SRC_FN(&v, in_type, 0);            /* ask only */
	r1 = SRC_FN(&v, in_type, &out);         /* perform */
	V_CHECK("same verdict with and without destination", (r0 < 0) == (r1 < 0));
	V_CHECK("source untouched", v == in_val || v != v);
	if (r1 >= 0) {
		/* floating targets: split so that the recorded finding (silent rounding) masks only the unrepresentable inputs */
		if (in_type == 'f') {
			int rep = (long double) (float) in_val == (long double) in_val || in_val != in_val;
			V_CHECK("-> float: representable value stored exactly", IMP(rep, same_number('f', &out, in_val)));
			V_CHECK("-> float: unrepresentable value refused", rep);
		}
		else if (in_type == 'd') {
			int rep = (long double) (double) in_val == (long double) in_val || in_val != in_val;
			V_CHECK("-> double: representable value stored exactly", IMP(rep, same_number('d', &out, in_val)));
			V_CHECK("-> double: unrepresentable value refused", rep);
		}
		else if (in_type == 'e') V_CHECK("exact or refused: -> long double", same_number('e', &out, in_val));
		else if (in_type == 'c') V_CHECK("exact or refused: -> char", same_number('c', &out, in_val));
		else                     V_CHECK("exact or refused: -> integer", same_number(in_type, &out, in_val));
		V_CHECK("nothing stored beyond the target", out.raw[tsize(in_type)] == 0xA5 && out.raw[sizeof(out.raw) - 1] == 0xA5);
	} else {
		V_CHECK("refused: destination untouched", out.raw[0] == 0xA5 && out.raw[7] == 0xA5);
	}
	/* identity conversion of a representable value is never refused */
	V_CHECK("own type accepted", IMP(in_type == SRC_CODE, r1 >= 0));
	V_COVER("accepted conversion to another type", r1 >= 0 && in_type != SRC_CODE);
	V_COVER("refused", r1 < 0);
#ifndef SRC_FLOAT
	V_COVER("accepted as character", r1 >= 0 && in_type == 'c');
#endif
	V_CANARY();
}
