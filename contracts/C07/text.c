/* C07 unit text.int: numeric text -> integer types, relative to ASSUMED contracts of strtoimax/strtoumax
 * (A-strto): the libc consumes a prefix of the text and returns the number it denotes, or saturates
 * and sets errno = ERANGE, or (strtoumax) returns the negated value for a numeral with a minus sign.
 * The stubs expose those outcomes as ghost values; the unit proves that success is only reported
 * for an exact value of the consumed characters, in every width. */
#include "verif.h"
#include <ctype.h>
#include <errno.h>
#include <inttypes.h>
#include <limits.h>
#include <sys/uio.h>
#include "types.h"
#include "convert.h"
#include "ctype_model.h"

#ifndef TLEN
# define TLEN 5
#endif

/* ghost description of what the text denotes (chosen by the environment, consistent with the text) */
static size_t   g_spaces;    /* leading white space the libc skips */
static size_t   g_consumed;  /* characters consumed, 0: no numeral */
static int      g_minus;     /* numeral has a minus sign */
static int      g_range;     /* magnitude beyond the libc's own type: saturates + ERANGE */
static uintmax_t g_mag;      /* magnitude of the numeral when !g_range */
static const char *g_text;

/*@assume: strtoimax contract (A-strto) */
intmax_t strtoimax(const char *s, char **end, int base)
{
	(void) base;
	__CPROVER_assert(s == g_text, "parser reads the caller's text");
	if (!g_consumed) { if (end) *end = (char *) s; return 0; }
	if (end) *end = (char *) s + g_consumed;
	if (g_range || (!g_minus && g_mag > (uintmax_t) INTMAX_MAX) || (g_minus && g_mag > (uintmax_t) INTMAX_MAX + 1)) { errno = ERANGE; return g_minus ? INTMAX_MIN : INTMAX_MAX; }
	return g_minus ? (intmax_t) (0 - g_mag) : (intmax_t) g_mag;
}
/*@assume: strtoumax contract (A-strto) */
uintmax_t strtoumax(const char *s, char **end, int base)
{
	(void) base;
	__CPROVER_assert(s == g_text, "parser reads the caller's text");
	if (!g_consumed) { if (end) *end = (char *) s; return 0; }
	if (end) *end = (char *) s + g_consumed;
	if (g_range) { errno = ERANGE; return UINTMAX_MAX; }
	return g_minus ? (uintmax_t) (0 - g_mag) : g_mag;
}

void harness(void)
{
	char in_text[TLEN + 1]; V_FILL(in_text);
	IN(size_t, in_spaces); IN(size_t, in_consumed); IN(int, in_minus); IN(int, in_range); IN(uintmax_t, in_mag);
	IN(size_t, in_vlen); IN(int, in_unsigned); IN(int, in_has_dest);
	union { int8_t b; uint8_t y; int16_t n; uint16_t q; int32_t i; uint32_t u; int64_t x; uint64_t t; uint8_t raw[16]; } out;
	size_t k; int ret;

	H_CTYPE_INIT();
	in_text[TLEN] = 0;
	V_REQ(in_spaces <= in_consumed && in_consumed <= TLEN);
	for (k = 0; k < TLEN; k++) {
		/* consistency of the ghost description with the text: the consumed prefix has no NUL, the skipped
		 * characters are white space, a minus sign is the first character behind them */
		V_REQ(in_text[k] >= 0);   /*@assume: text is ASCII (glibc mirrors the table for negative char values; the model does not) */
		if (k < in_consumed) V_REQ(in_text[k] != 0);
		if (k < in_spaces) V_REQ(isspace((unsigned char) in_text[k]));
	}
	V_REQ(IMP(in_consumed, in_spaces < in_consumed && !isspace((unsigned char) in_text[in_spaces])));
	V_REQ(IMP(in_consumed, (in_text[in_spaces] == '-') == (in_minus != 0)));
	V_REQ(IMP(in_minus, in_consumed >= in_spaces + 2));
	g_spaces = in_spaces; g_consumed = in_consumed; g_minus = in_minus != 0; g_range = in_range != 0; g_mag = in_mag; g_text = in_text;
	for (k = 0; k < sizeof(out.raw); k++) out.raw[k] = 0xA5;

#ifdef UNIT_NUMBER
	{
		/* the dispatcher: the type code selects width and signedness */
		IN(int, in_fmt);
		V_REQ(in_fmt == 'b' || in_fmt == 'y' || in_fmt == 'n' || in_fmt == 'q' || in_fmt == 'i' || in_fmt == 'u' || in_fmt == 'x' || in_fmt == 't' || in_fmt == 'l');
		V_REQ(in_vlen == ((in_fmt == 'b' || in_fmt == 'y') ? 1 : (in_fmt == 'n' || in_fmt == 'q') ? 2 : (in_fmt == 'i' || in_fmt == 'u') ? 4 : 8));
		V_REQ((in_unsigned != 0) == (in_fmt == 'y' || in_fmt == 'q' || in_fmt == 'u' || in_fmt == 't'));
		V_REQ(in_spaces == 0);   /* leading space is skipped by the caller of the dispatcher */
		ret = mpt_convert_number(in_text, in_fmt, in_has_dest ? &out : 0);
	}
#else
	ret = in_unsigned ? _mpt_convert_uint(in_has_dest ? &out : 0, in_vlen, in_text, 0)
	                  : _mpt_convert_int (in_has_dest ? &out : 0, in_vlen, in_text, 0);
#endif
	if (ret > 0) {
		__int128 want = in_minus ? -(__int128) in_mag : (__int128) in_mag, got = 0;
		V_CHECK("text: success only for a known width", in_vlen == 1 || in_vlen == 2 || in_vlen == 4 || in_vlen == 8);
		V_CHECK("text: reports exactly the consumed characters", (size_t) ret == in_consumed && in_consumed > 0);
		V_CHECK("text: a numeral beyond the libc range is never accepted (no saturation)", !in_range);
		if (in_has_dest && !in_range) {
			if (in_unsigned) got = in_vlen == 1 ? (__int128) out.y : in_vlen == 2 ? (__int128) out.q : in_vlen == 4 ? (__int128) out.u : (__int128) out.t;
			else             got = in_vlen == 1 ? (__int128) out.b : in_vlen == 2 ? (__int128) out.n : in_vlen == 4 ? (__int128) out.i : (__int128) out.x;
			V_CHECK("text: stored value denotes the number of the consumed numeral (no wrap, no truncation)", got == want);
			V_CHECK("text: nothing stored beyond the target", in_vlen < sizeof(out.raw) && out.raw[in_vlen] == 0xA5);
		}
	} else {
		V_CHECK("text: refused or empty => destination untouched", out.raw[0] == 0xA5 && out.raw[7] == 0xA5);
		V_CHECK("text: empty or blank text is 'nothing' (0), anything else without a numeral an error", IMP(ret == 0, in_consumed == 0));
	}
	V_COVER("accepted negative", ret > 0 && in_minus && !in_unsigned);
	V_COVER("accepted 64 bit unsigned", ret > 0 && in_unsigned && in_vlen == 8 && in_mag > (uintmax_t) INT64_MAX);
	V_COVER("refused for width", ret < 0 && in_consumed && !in_range && in_vlen == 2);
	V_COVER("blank text", ret == 0 && in_text[0] != 0);
	V_CANARY();
}
