/* C15 units refcount.raise / refcount.lower: the counter never wraps, refusal leaves it unchanged */
#include "verif.h"
#include "core.h"
uintptr_t g_val;

#define POST_mpt_refcount_raise(X, ref_, r_) \
	X("raise.dead-object-refused: a counter at 0 is never revived", IMP(g_val == 0, (r_) == 0 && (ref_)->_val == 0)) \
	X("raise.maximum-refused: reports failure instead of wrapping", IMP(g_val == UINTPTR_MAX, (r_) == 0 && (ref_)->_val == UINTPTR_MAX)) \
	X("raise.counts-one", IMP(g_val > 0 && g_val < UINTPTR_MAX, (r_) == g_val + 1 && (ref_)->_val == g_val + 1))

#define POST_mpt_refcount_lower(X, ref_, r_) \
	X("lower.dead-object: no underflow", IMP(g_val == 0, (ref_)->_val == 0 && (r_) != 0)) \
	X("lower.counts-one: returns the remaining holders", IMP(g_val > 0, (r_) == g_val - 1 && (ref_)->_val == g_val - 1))

uintptr_t mpt_refcount_raise(MPT_STRUCT(refcount) *ref)
__CPROVER_requires(g_val == ref->_val)
__CPROVER_assigns(ref->_val)
POST_mpt_refcount_raise(C_ENSURES, ref, __CPROVER_return_value)
;
uintptr_t mpt_refcount_lower(MPT_STRUCT(refcount) *ref)
__CPROVER_requires(g_val == ref->_val)
__CPROVER_assigns(ref->_val)
POST_mpt_refcount_lower(C_ENSURES, ref, __CPROVER_return_value)
;

void harness(void)
{
	IN(uintptr_t, in_val);
	MPT_STRUCT(refcount) r; uintptr_t ret;
	r._val = g_val = in_val;
#ifdef UNIT_LOWER
	ret = mpt_refcount_lower(&r);
	POST_mpt_refcount_lower(H_ENS, &r, ret)
	V_COVER("last reference dropped", ret == 0);
	V_COVER("dead object", in_val == 0);
#else
	ret = mpt_refcount_raise(&r);
	POST_mpt_refcount_raise(H_ENS, &r, ret)
	V_COVER("at maximum", in_val == UINTPTR_MAX);
	V_COVER("raised", ret > 1);
#endif
	V_CANARY();
}
