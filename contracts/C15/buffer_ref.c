/* C15 units buffer.ref / array.clone: the shared buffer of buffer_alloc.c is destroyed exactly
 * when the last handle is dropped; mpt_array_clone / array traits balance the counts */
#include "verif.h"
#include <sys/uio.h>
#include "mptcore/array/buffer_alloc.c"
/* a typed buffer's element behaviour: harness stub (the real traits are checked in their own units) */
static int  h_el_init(void *p, const void *src) { (void) p; (void) src; return 0; }
int g_finis;
static void h_el_fini(void *p) { (void) p; g_finis++; }
static const MPT_STRUCT(type_traits) h_el_traits = { h_el_init, h_el_fini, sizeof(void *) };

#ifndef BCAP
# define BCAP 24
#endif

void harness(void)
{
	IN(int, in_flags); IN(uintptr_t, in_ref); IN(int, in_op);
	const size_t in_size = BCAP;   /* concrete request size: the rounding arithmetic of the allocator is the subject of C04, not of C15 */
	MPT_STRUCT(buffer) *b; MPT_STRUCT(bufferData) *bd;
	V_REQ(in_size <= BCAP && in_ref >= 1);
	b = _mpt_buffer_alloc(in_size, in_flags);
	V_REQ(b != 0);
	bd = MPT_baseaddr(bufferData, b, buf);
	V_CHECK("alloc: one holder, empty, capacity as asked, untyped", bd->_ref._val == 1 && b->_used == 0 && b->_size >= in_size && b->_content_traits == 0);
	V_CHECK("alloc: only user flags kept, not shared", b->_vptr->get_flags(b) == (uint32_t) (in_flags & MPT_ENUM(BufferFlagsUser)));
	bd->_ref._val = in_ref;                       /* any number of holders */
#if defined(UNIT_CLONE)
	{
		/* second buffer and two array handles */
		IN(int, in_dst_has); IN(int, in_src_kind); IN(uintptr_t, in_ref2); IN(int, in_typed);
		MPT_STRUCT(buffer) *b2 = _mpt_buffer_alloc(in_size, 0); MPT_STRUCT(bufferData) *bd2;
		MPT_STRUCT(array) dst = MPT_ARRAY_INIT, src = MPT_ARRAY_INIT; int ret;
		V_REQ(b2 != 0 && in_ref2 >= 1 && in_ref2 < UINTPTR_MAX);
		bd2 = MPT_baseaddr(bufferData, b2, buf); bd2->_ref._val = in_ref2;
		if (in_typed) b2->_content_traits = &h_el_traits;
		dst._buf = in_dst_has ? b : 0;
		src._buf = in_src_kind == 0 ? 0 : (in_src_kind == 1 ? b : b2);
		ret = mpt_array_clone(&dst, in_src_kind == 3 ? 0 : &src);
		if (in_src_kind == 3 || src._buf == 0) {
			V_CHECK("clone: from nothing clears the target and drops its reference once", dst._buf == 0 && ret == (in_dst_has ? 2 : 0));
			if (in_dst_has && in_ref > 1) V_CHECK("clone: other holders keep the buffer", bd->_ref._val == in_ref - 1);
			V_CHECK("clone: unrelated buffer untouched", bd2->_ref._val == in_ref2);
		} else if (src._buf == b) {
			V_CHECK("clone: same buffer", IMP(in_dst_has, ret == 0 && bd->_ref._val == in_ref && dst._buf == b));
			V_CHECK("clone: new holder counted once (or refused at the maximum)", IMP(!in_dst_has, (ret == 1 && dst._buf == b && bd->_ref._val == in_ref + 1) || (ret < 0 && in_ref == UINTPTR_MAX && dst._buf == 0 && bd->_ref._val == in_ref)));
		} else {
			V_CHECK("clone: type mismatch refused without any change", IMP(in_dst_has && in_typed, ret == MPT_ERROR(BadType) && dst._buf == b && bd->_ref._val == in_ref && bd2->_ref._val == in_ref2));
			if (ret >= 0) {
				V_CHECK("clone: new referent retained once", dst._buf == b2 && bd2->_ref._val == in_ref2 + 1);
				if (in_dst_has && in_ref > 1) V_CHECK("clone: old referent released once", bd->_ref._val == in_ref - 1 && ret == 3);
			}
		}
		V_CHECK("clone: source handle untouched", src._buf == (in_src_kind == 0 ? 0 : (in_src_kind == 1 ? b : b2)));
		V_COVER("replace", ret == 3);
		V_COVER("remove", ret == 2);
		V_COVER("refused", ret < 0);
		/* release what must still be alive by the contract; the leak check shows the rest is gone */
		if (!(in_dst_has && in_ref == 1 && dst._buf != b)) free(bd);
		free(bd2);
	}
#else
	{
		IN(int, in_typed0); IN(size_t, in_used);
		V_REQ(in_used <= b->_size && in_used % sizeof(void *) == 0 && in_used <= 3 * sizeof(void *));
		if (in_typed0) b->_content_traits = &h_el_traits;
		b->_used = in_used; g_finis = 0;
	if (in_op == 0) {
		uintptr_t r = b->_vptr->addref(b);
		V_CHECK("addref: counts one, refuses at the maximum without wrapping", in_ref < UINTPTR_MAX ? (r == in_ref + 1 && bd->_ref._val == in_ref + 1) : (r == 0 && bd->_ref._val == in_ref));
		V_CHECK("flags: shared exactly when more than one holder", ((b->_vptr->get_flags(b) & MPT_ENUM(BufferShared)) != 0) == (bd->_ref._val > 1));
		free(bd);
	} else {
		b->_vptr->unref(b);
		/* last holder => destroyed: nothing may survive (leak check) and nothing is freed twice (free model);
		 * other holders => object intact with one holder less */
		V_CHECK("unref: elements are finalised by the last holder only, each once", g_finis == (size_t) ((in_ref == 1 && in_typed0) ? in_used / sizeof(void *) : 0));
		if (in_ref > 1) {
			V_CHECK("unref: other holders keep the object", bd->_ref._val == in_ref - 1 && b->_size >= in_size);
			V_CHECK("flags: shared exactly when more than one holder", ((b->_vptr->get_flags(b) & MPT_ENUM(BufferShared)) != 0) == (bd->_ref._val > 1));
			free(bd);
		}
	}
	V_COVER("last holder of a typed buffer with elements", in_op && in_ref == 1 && in_typed0 && in_used > 0);
	}
	V_COVER("last holder", in_op && in_ref == 1);
	V_COVER("shared", in_ref > 1);
#endif
	V_CANARY();
}
