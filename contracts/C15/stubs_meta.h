/* metatype stubs with an explicit counter: two objects A and B whose addref/unref are counted;
 * addref may fail (counter at its maximum) when in_fail says so */
#ifndef STUBS_META_H
#define STUBS_META_H
#include "meta.h"
struct h_meta { MPT_INTERFACE(metatype) mt; long refs; int fail_addref; int unrefs, addrefs, converts; };
static int h_conv(MPT_INTERFACE(convertable) *c, MPT_TYPE(type) t, void *d) { struct h_meta *m = (void *) c; (void) t; (void) d; m->converts++; return 0; }
static void h_unref(MPT_INTERFACE(metatype) *mt) { struct h_meta *m = (void *) mt; m->refs--; m->unrefs++; }
static uintptr_t h_addref(MPT_INTERFACE(metatype) *mt) { struct h_meta *m = (void *) mt; if (m->fail_addref) return 0; m->addrefs++; return (uintptr_t) ++m->refs; }
static MPT_INTERFACE(metatype) *h_clone(const MPT_INTERFACE(metatype) *mt) { (void) mt; return 0; }
static const MPT_INTERFACE_VPTR(metatype) h_meta_vptr = { { h_conv }, h_unref, h_addref, h_clone };
#define H_META_INIT(refs_, fail_) { { &h_meta_vptr }, (refs_), (fail_), 0, 0, 0 }
#endif
