/* C15 unit meta.assign: replacing a held metatype reference through the generic conversion
 * releases the old referent once and retains the new one once (mptcore/convert/data_converter.c),
 * and the reference-array traits (meta_reference_traits.c) obey the trait contract */
#include "verif.h"
#include <sys/uio.h>
#include "stubs_meta.h"
#include "mptcore/convert/data_converter.c"
#include "mptcore/meta/meta_reference_traits.c"

void harness(void)
{
	IN(long, in_ra); IN(long, in_rb); IN(int, in_fail); IN(int, in_src); IN(int, in_old); IN(int, in_has_dest);
	struct h_meta A = H_META_INIT(in_ra, 0), B = H_META_INIT(in_rb, in_fail);
	MPT_INTERFACE(metatype) *src, *held, **dest; int ret;
	V_REQ(in_ra >= 1 && in_ra < 1000000 && in_rb >= 1 && in_rb < 1000000);
	src  = in_src == 0 ? 0 : (in_src == 1 ? &A.mt : &B.mt);       /* new referent: none, A (same as old possible), B */
	held = in_old == 0 ? 0 : &A.mt;                                 /* currently held: none or A */
	dest = in_has_dest ? &held : 0;
#if defined(UNIT_TRAITS)
	{
		const MPT_STRUCT(type_traits) *tr = mpt_meta_reference_traits();
		MPT_INTERFACE(metatype) *slot = (void *) 1;
		V_CHECK("traits: element is one reference", tr->size == sizeof(void *) && tr->init && tr->fini);
		ret = tr->init(&slot, in_src ? &src : 0);
		V_CHECK("init: copy takes exactly one reference on the source referent", IMP(in_src && src && ret >= 0, slot == src && (src == &A.mt ? A.addrefs == 1 && B.addrefs == 0 : B.addrefs == 1 && A.addrefs == 0)));
		V_CHECK("init: failing counter reports failure", IMP(src == &B.mt && in_fail, ret < 0 && B.refs == in_rb));
		V_CHECK("init: default construction is the empty reference", IMP(!in_src || !src, ret >= 0 && slot == 0 && A.addrefs + B.addrefs == 0));
		V_CHECK("init: never releases", A.unrefs + B.unrefs == 0);
		if (ret >= 0) {
			tr->fini(&slot);
			V_CHECK("fini: releases exactly the reference the element held", A.refs == in_ra && B.refs == in_rb && A.unrefs + B.unrefs == (src ? 1 : 0));
		}
		V_COVER("copy of a live reference", ret > 0);
		V_COVER("failed copy", ret < 0);
	}
#else
	ret = _mpt_metatype_wrap(in_src == 3 ? 0 : (const void *) &src, MPT_ENUM(TypeMetaRef), dest);
	V_CHECK("assign: no source slot => refused, nothing counted", IMP(in_src == 3, ret < 0 && A.addrefs + A.unrefs + B.addrefs + B.unrefs == 0));
	if (in_src != 3) {
		V_CHECK("assign: query only (no destination) changes nothing", IMP(!dest, A.refs == in_ra && B.refs == in_rb && A.addrefs + A.unrefs + B.addrefs + B.unrefs == 0));
		V_CHECK("assign: failing counter of the new referent => refused, old reference kept", IMP(dest && src == &B.mt && in_fail, ret < 0 && held == (in_old ? &A.mt : 0) && A.refs == in_ra && B.refs == in_rb));
		if (dest && ret >= 0) {
			long want_a = in_ra + (src == &A.mt ? 1 : 0) - (in_old ? 1 : 0);
			long want_b = in_rb + (src == &B.mt ? 1 : 0);
			V_CHECK("assign: destination holds the new referent", held == src);
			V_CHECK("assign: new referent retained exactly once", (src == &A.mt ? A.addrefs : 0) + (src == &B.mt ? B.addrefs : 0) == (src ? 1 : 0) && A.addrefs + B.addrefs == (src ? 1 : 0));
			V_CHECK("assign: old referent released exactly once", A.unrefs == (in_old ? 1 : 0) && B.unrefs == 0);
			V_CHECK("assign: counters balance", A.refs == want_a && B.refs == want_b);
			V_CHECK("assign: self assignment is neutral", IMP(in_old && src == &A.mt, A.refs == in_ra));
		}
	}
	V_COVER("replace A by B", dest && in_old && src == &B.mt && ret >= 0);
	V_COVER("clear held reference", dest && in_old && !src && ret >= 0);
	V_COVER("self assignment", dest && in_old && src == &A.mt && ret >= 0);
	V_COVER("refused", ret < 0);
	/* non-reference targets are forwarded to the referent's converter */
	{
		int r2 = _mpt_metatype_wrap(&src, 's', 0);
		V_CHECK("convert: forwarded to the referent, references untouched", IMP(src, r2 == 0) && IMP(!src, r2 < 0));
	}
#endif
	V_CANARY();
}
