/* C15 unit array.traits: an array handle as element of a typed buffer (mptcore/array/array_traits.c):
 * copy construction takes exactly one reference on the shared buffer, destruction drops exactly that one.
 * The buffer is an abstract one with a counting v-table (A-stub); the real allocator is checked in buffer.ref. */
#include "verif.h"
#include <sys/uio.h>
#include "array.h"
#include "mptcore/array/array_traits.c"

struct h_buf { MPT_STRUCT(buffer) b; uintptr_t refs; int addrefs, unrefs; };
static uint32_t h_flags(const MPT_STRUCT(buffer) *b) { const struct h_buf *h = (const void *) b; return h->refs > 1 ? MPT_ENUM(BufferShared) : 0; }
static void h_unref(MPT_STRUCT(buffer) *b) { struct h_buf *h = (void *) b; h->refs--; h->unrefs++; }
static uintptr_t h_addref(MPT_STRUCT(buffer) *b) { struct h_buf *h = (void *) b; if (h->refs == UINTPTR_MAX) return 0; h->addrefs++; return ++h->refs; }
static MPT_STRUCT(buffer) *h_detach(MPT_STRUCT(buffer) *b, size_t n) { (void) n; return b; }
static const MPT_INTERFACE_VPTR(buffer) h_vptr = { h_flags, h_unref, h_addref, h_detach };

void harness(void)
{
	IN(uintptr_t, in_ref); IN(int, in_op); IN(int, in_copy);
	struct h_buf hb = { { &h_vptr, 0, 16, 0 }, 0, 0, 0 };
	const MPT_STRUCT(type_traits) *tr = mpt_array_traits();
	MPT_STRUCT(array) el, from; int ret;
	V_REQ(in_ref >= 1);
	hb.refs = in_ref;
	from._buf = in_copy ? &hb.b : 0;
	V_CHECK("traits: element is one array handle", tr->size == sizeof(MPT_STRUCT(array)) && tr->init && tr->fini);
	ret = tr->init(&el, in_op ? &from : 0);
	V_CHECK("init: copy takes exactly one reference", IMP(in_op && in_copy && ret >= 0, el._buf == &hb.b && hb.refs == in_ref + 1 && hb.addrefs == 1));
	V_CHECK("init: refused at the maximum, count unchanged", IMP(in_op && in_copy && in_ref == UINTPTR_MAX, ret < 0 && hb.refs == in_ref));
	V_CHECK("init: default is the empty handle", IMP(!in_op || !in_copy, ret >= 0 && el._buf == 0 && hb.refs == in_ref && hb.addrefs == 0));
	V_CHECK("init: never releases", hb.unrefs == 0);
	if (ret >= 0) {
		tr->fini(&el);
		V_CHECK("fini: drops exactly that reference and clears the element", el._buf == 0 && hb.refs == in_ref && hb.unrefs == (in_op && in_copy ? 1 : 0));
		tr->fini(&el);
		V_CHECK("fini: a cleared element releases nothing", hb.refs == in_ref);
	}
	V_COVER("copied", ret > 0);
	V_COVER("refused", ret < 0);
	V_CANARY();
}
