/* C17 units memchr / memrchr / memfcn / memrfcn / memstr: position = first/last index in FLAT satisfying the predicate */
#include "frag.h"

static uint8_t h_cls[256];   /* arbitrary character class */
static int h_pred(int c, void *par) { (void) par; return h_cls[(uint8_t) c]; }

void harness(void)
{
	FRAG_BUILD();
	IN(int, in_tok); IN(size_t, in_ndat);
	ssize_t r; uint8_t tok;
	__CPROVER_havoc_object(h_cls);
	V_REQ(in_ndat >= 1 && in_ndat <= 3);
	if (in_ndat < 3) { fl2 = 0; } if (in_ndat < 2) { fl1 = 0; }
	ftotal = fl0 + fl1 + fl2;
	tok = (uint8_t) in_tok;
#if defined(UNIT_CHR)
	r = mpt_memchr(fv, in_ndat, in_tok);
# define HIT(k_) (FLAT(k_) == tok)
# define FIRST 1
#elif defined(UNIT_RCHR)
	r = mpt_memrchr(fv, in_ndat, in_tok);
# define HIT(k_) (FLAT(k_) == tok)
# define FIRST 0
#elif defined(UNIT_FCN)
	r = mpt_memfcn(fv, in_ndat, h_pred, 0);
# define HIT(k_) (h_cls[FLAT(k_)] != 0)
# define FIRST 1
#elif defined(UNIT_RFCN)
	r = mpt_memrfcn(fv, in_ndat, h_pred, 0);
# define HIT(k_) (h_cls[FLAT(k_)] != 0)
# define FIRST 0
#endif
	V_CHECK("search: result is a position in the message or 'none'", r == -2 || (r >= 0 && (size_t) r < ftotal));
	V_CHECK("search: the reported position satisfies the predicate", IMP(r >= 0, HIT((size_t) r)));
	V_CHECK("search: none => no byte of the concatenation satisfies it", IMP(r == -2 && in_k < ftotal, !HIT(in_k)));
#if FIRST
	V_CHECK("search: first such position of the concatenation", IMP(r >= 0 && in_k < (size_t) r, !HIT(in_k)));
#else
	V_CHECK("search: last such position of the concatenation", IMP(r >= 0 && in_k > (size_t) r && in_k < ftotal, !HIT(in_k)));
#endif
	V_COVER("found in the third fragment behind an empty one", r >= 0 && (size_t) r >= fl0 + fl1 && fl1 == 0 && in_ndat == 3);
	V_COVER("found in the first fragment", r >= 0 && (size_t) r < fl0);
	V_COVER("none", r == -2 && ftotal > 2);
	V_CANARY();
}
