/* C17 units memcpy / message_get: copying between fragment lists, and a queue region as a message */
#include "frag.h"
#ifdef UNIT_GET
# include "../C13/queue_spec.h"
Q_GHOST_DEFS
#endif

#if defined(UNIT_APPEND)
#include "array.h"
/* mpt_message_append: every fragment of the message (first part + continuation list, empty fragments anywhere) is
 * appended to the array in order; on failure the array length is what it was.  mpt_array_append is a stand-in of its
 * C04 contract over a flat destination (appends len bytes behind the used part, or fails at any call). */
#define DCAP (3 * LCAP + 4)
static struct { MPT_STRUCT(buffer) b; uint8_t data[DCAP]; } h_dst;
static int g_appends, g_fail_at;
void *mpt_array_append(MPT_STRUCT(array) *a, size_t len, const void *base)
{
	size_t i, u = h_dst.b._used;
	g_appends++;
	if (g_appends == g_fail_at || len > DCAP - u) return 0;
	for (i = 0; i < LCAP; i++) if (i < len) h_dst.data[u + i] = base ? ((const uint8_t *) base)[i] : 0;
	h_dst.b._used = u + len; a->_buf = &h_dst.b;
	return h_dst.data + u;
}
void harness(void)
{
	FRAG_BUILD();
	IN(size_t, in_old); IN(int, in_fail_at); IN(int, in_has_buf);
	MPT_STRUCT(message) msg = MPT_MESSAGE_INIT; MPT_STRUCT(array) arr = { 0 }; int r; size_t old;
	V_REQ(in_old <= 4);
	FRAG_MSG(msg);
	old = in_has_buf ? in_old : 0;
	h_dst.b._used = old; *((size_t *) &h_dst.b._size) = DCAP; arr._buf = in_has_buf ? &h_dst.b : 0;
	g_fail_at = in_fail_at; g_appends = 0;
	r = mpt_message_append(&arr, &msg);
	V_CHECK("append: success exactly when no array operation failed", (r >= 0) == !(in_fail_at >= 1 && g_appends >= in_fail_at));
	V_CHECK("append: on success the array grew by the whole message", IMP(r >= 0, h_dst.b._used == old + ftotal));
	V_CHECK("append: appended byte k is byte k of the concatenated fragments (nothing behind an empty fragment is dropped)", IMP(r >= 0 && in_k < ftotal, h_dst.data[old + in_k] == FLAT(in_k)));
	V_CHECK("append: on failure the array has its old length", IMP(r < 0 && arr._buf, h_dst.b._used == old));
	V_COVER("empty fragment in the middle, data behind it", r >= 0 && fl1 == 0 && fl2 > 0 && fl0 > 0);
	V_COVER("failed on the last fragment", r < 0 && g_appends == 3);
	V_CANARY();
}
#else
void harness(void)
{
#if defined(UNIT_GET)
	Q_BUILD(q, st);
	IN(size_t, in_off2); IN(size_t, in_take); IN(int, in_has_vec); IN(size_t, in_j);
	MPT_STRUCT(message) msg = MPT_MESSAGE_INIT; struct iovec vec = { 0, 0 }; int ret;
	V_REQ(in_off2 <= CAP && in_take <= CAP && in_off < in_max);
	ret = mpt_message_get(&q, in_off2, in_take, &msg, in_has_vec ? &vec : 0);
	V_CHECK("get: a region outside the content is refused", IMP(in_off2 > g_len || in_take > g_len - in_off2, ret < 0));
	V_CHECK("get: a region inside the content is delivered (given a vector for wrapped regions)", IMP(in_off2 <= g_len && in_take <= g_len - in_off2 && in_has_vec, ret >= 0));
	if (ret >= 0) {
		size_t tot = msg.used + (msg.clen ? msg.cont[0].iov_len : 0);
		V_CHECK("get: at most two fragments of exactly the requested length", msg.clen <= 1 && tot == in_take && ret == (int) msg.clen);
		V_CHECK("get: message byte j is logical queue byte off+j", IMP(in_j < in_take, (in_j < msg.used ? ((const uint8_t *) msg.base)[in_j] : ((const uint8_t *) msg.cont[0].iov_base)[in_j - msg.used]) == QV(&q, in_off2 + in_j)));
	}
	V_CHECK("get: queue untouched", Q_SAME(&q));
	V_COVER("wrapped region in two fragments", ret == 1);
	V_COVER("refused", ret < 0);
#else
	FRAG_BUILD();
	IN(size_t, in_d0); IN(size_t, in_d1); IN(size_t, in_d2); IN(ssize_t, in_len);
	struct iovec dv[3]; uint8_t old = 0; ssize_t r; size_t dtotal, j = in_k;
	V_REQ(in_d0 <= LCAP && in_d1 <= LCAP && in_d2 <= LCAP && in_len >= -1 && in_len <= 4 * LCAP);
	IN_BUF(dv[0].iov_base, in_d0); IN_BUF(dv[1].iov_base, in_d1); IN_BUF(dv[2].iov_base, in_d2);
	dv[0].iov_len = in_d0; dv[1].iov_len = in_d1; dv[2].iov_len = in_d2; dtotal = in_d0 + in_d1 + in_d2;
# define DB(i_, k_)  (((const uint8_t *) dv[i_].iov_base)[k_])
# define DFLAT(k_)   ((k_) < in_d0 ? DB(0, (k_)) : ((k_) - in_d0 < in_d1 ? DB(1, (k_) - in_d0) : DB(2, (k_) - in_d0 - in_d1)))
	if (j < dtotal) old = DFLAT(j);
	r = mpt_memcpy(in_len, fv, 3, dv, 3);
	if (in_len > 0) {
		V_CHECK("memcpy: more than the source holds is refused", IMP((size_t) in_len > ftotal, r == -1));
		V_CHECK("memcpy: more than the destination holds is refused", IMP((size_t) in_len <= ftotal && (size_t) in_len > dtotal, r == -2));
		V_CHECK("memcpy: otherwise exactly len bytes", IMP((size_t) in_len <= ftotal && (size_t) in_len <= dtotal, r == in_len));
	} else if (in_len < 0) {
		V_CHECK("memcpy: 'all' copies min(source, destination)", r == (ssize_t) (ftotal < dtotal ? ftotal : dtotal));
	}
	V_CHECK("memcpy: destination concatenation equals source concatenation", IMP(r > 0 && j < (size_t) r, DFLAT(j) == FLAT(j)));
	V_CHECK("memcpy: nothing else written", IMP(j < dtotal && (r < 0 || j >= (size_t) r), DFLAT(j) == old));
	V_COVER("copy across fragment boundaries on both sides", r > 0 && (size_t) r > fl0 && (size_t) r > in_d0 && fl0 != in_d0 && fl0 > 0 && in_d0 > 0);
	V_COVER("refused", r < 0);
#endif
	V_CANARY();
}
#endif
