/* C17 - a message as <= 3 fragments of symbolic length (empty fragments included) and its FLAT view:
 * FLAT(k) = byte k of the concatenation, written as a loop-free nested conditional. */
#ifndef FRAG_H
#define FRAG_H
#include "verif.h"
#include <ctype.h>
#include <errno.h>
#include <sys/uio.h>
#include <sys/types.h>
#include "message.h"
#include "../C07/ctype_model.h"

#ifndef LCAP
# define LCAP 1024
#endif
static struct iovec fv[3];
static size_t fl0, fl1, fl2, ftotal;
#define FB(i_, k_)   (((const uint8_t *) fv[i_].iov_base)[k_])
#define FLAT(k_)     ((k_) < fl0 ? FB(0, (k_)) : ((k_) - fl0 < fl1 ? FB(1, (k_) - fl0) : FB(2, (k_) - fl0 - fl1)))
#define FRAG_BUILD() \
	IN(size_t, in_l0); IN(size_t, in_l1); IN(size_t, in_l2); IN(size_t, in_k); \
	V_REQ(in_l0 <= LCAP && in_l1 <= LCAP && in_l2 <= LCAP); \
	IN_BUF(fv[0].iov_base, in_l0); IN_BUF(fv[1].iov_base, in_l1); IN_BUF(fv[2].iov_base, in_l2); \
	fv[0].iov_len = fl0 = in_l0; fv[1].iov_len = fl1 = in_l1; fv[2].iov_len = fl2 = in_l2; ftotal = fl0 + fl1 + fl2
/* message cursor over the three fragments */
#define FRAG_MSG(m_)  do { (m_).base = fv[0].iov_base; (m_).used = fl0; (m_).cont = fv + 1; (m_).clen = 2; } while (0)
#endif
