/* C17 units memtok / message_argv / memstr: same verdict and position on the fragment list as on the
 * single contiguous string formed by concatenating the fragments (the function is run on both). */
#include "frag.h"

#define TOTMAX (3 * LCAP)

void harness(void)
{
	FRAG_BUILD();
	uint8_t *flat; struct iovec fvec; size_t i, n = 0;
	H_CTYPE_INIT();
	/* the contiguous concatenation */
	IN_BUF(flat, TOTMAX);
	for (i = 0; i < LCAP; i++) if (i < fl0) flat[n++] = FB(0, i);
	for (i = 0; i < LCAP; i++) if (i < fl1) flat[n++] = FB(1, i);
	for (i = 0; i < LCAP; i++) if (i < fl2) flat[n++] = FB(2, i);
	fvec.iov_base = flat; fvec.iov_len = ftotal;
	for (i = 0; i < TOTMAX; i++) V_REQ(IMP(i < ftotal, flat[i] < 128));   /*@assume: message text is ASCII (ctype table model) */
#if defined(UNIT_TOK)
	{
		char in_tok[3], in_com[3], in_esc[3]; IN(int, in_has_tok); IN(int, in_has_com); IN(int, in_has_esc); V_FILL(in_tok); V_FILL(in_com); V_FILL(in_esc);
		ssize_t a, b;
		in_tok[2] = in_com[2] = in_esc[2] = 0;
		V_REQ(in_tok[0] >= 0 && in_tok[1] >= 0 && in_com[0] >= 0 && in_com[1] >= 0 && in_esc[0] >= 0 && in_esc[1] >= 0);
		const char *ptok = in_tok, *pcom = in_com, *pesc = in_esc;
		if (!in_has_tok) ptok = 0; if (!in_has_com) pcom = 0; if (!in_has_esc) pesc = 0;
		a = mpt_memtok(fv, 3, ptok, pcom, pesc);
		b = mpt_memtok(&fvec, 1, ptok, pcom, pesc);
		V_CHECK("memtok: same verdict and position as on the concatenation", a == b);
		V_COVER("token found behind a fragment boundary", a >= 0 && (size_t) a >= fl0 && fl0 > 0);
		V_COVER("none", a == -2 && ftotal > 1);
		V_COVER("escaped section", in_has_esc && a >= 2);
	}
#elif defined(UNIT_STR)
	{
		uint8_t in_match[2]; IN(size_t, in_mlen); ssize_t a, b, c, d; V_FILL(in_match);
		V_REQ(in_mlen <= 2);
		a = mpt_memstr(fv, 3, in_match, in_mlen);  b = mpt_memstr(&fvec, 1, in_match, in_mlen);
		c = mpt_memrstr(fv, 3, in_match, in_mlen); d = mpt_memrstr(&fvec, 1, in_match, in_mlen);
		V_CHECK("memstr: same position as on the concatenation", a == b);
		V_CHECK("memrstr: same position as on the concatenation", c == d);
		V_CHECK("memstr: position holds a byte of the match set, none before", IMP(a >= 0 && in_mlen, (flat[a] == in_match[0] || (in_mlen > 1 && flat[a] == in_match[1])) && IMP(in_k < (size_t) a, flat[in_k] != in_match[0] && IMP(in_mlen > 1, flat[in_k] != in_match[1]))));
		V_COVER("found", a > 0 && c > a);
	}
#elif defined(UNIT_ARGV)
	{
		MPT_STRUCT(message) m1, m2 = MPT_MESSAGE_INIT; IN(int, in_sep); ssize_t a, b;
		FRAG_MSG(m1);
		m2.base = flat; m2.used = ftotal;
		V_REQ(in_sep >= 0 && in_sep < 128);
		int quotes = 0;
		for (i = 0; i < TOTMAX; i++) if (i < ftotal && (flat[i] == '"' || flat[i] == '\'')) quotes = 1;
		a = mpt_message_argv(&m1, in_sep);
		b = mpt_message_argv(&m2, in_sep);
		V_CHECK("argv: same argument length as on the concatenation (text without quote characters)", IMP(!quotes, a == b));
		V_CHECK("argv: same argument length as on the concatenation (text with quote characters)", IMP(quotes, a == b));
		V_CHECK("argv: same argument start (remaining length)", IMP(a >= 0 && b >= 0, mpt_message_length(&m1) == mpt_message_length(&m2)));
		V_CHECK("argv: same first byte of the argument", IMP(a > 0 && b > 0, m1.used > 0 && m2.used > 0 && *(const uint8_t *) m1.base == *(const uint8_t *) m2.base));
		V_COVER("argument starts in a later fragment", a > 0 && mpt_message_length(&m1) <= fl1 + fl2 && fl0 > 0);
		V_COVER("argument spans fragments", a > 0 && m1.used < (size_t) a);
		V_COVER("no data", a < 0);
	}
#endif
	V_CANARY();
}
