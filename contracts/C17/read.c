/* C17 unit message_read / message_length: reading n bytes from the fragment list == reading them from FLAT */
#include "frag.h"

void harness(void)
{
	FRAG_BUILD();
	IN(size_t, in_n); IN(int, in_has_dest);
	MPT_STRUCT(message) msg; uint8_t *dest = 0; size_t r, want;
	V_REQ(in_n <= 4 * LCAP);
	FRAG_MSG(msg);
	if (in_has_dest) { IN_BUF(dest, in_n); }
	V_CHECK("length: sum of the fragment lengths", mpt_message_length(&msg) == ftotal);
	r = mpt_message_read(&msg, in_n, dest);
	want = in_n < ftotal ? in_n : ftotal;
	V_CHECK("read: returns min(n, total)", r == want);
	V_CHECK("read: copied bytes are FLAT[0..r)", IMP(dest && in_k < r, dest[in_k] == FLAT(in_k)));
	V_CHECK("read: remaining length", mpt_message_length(&msg) == ftotal - r);
	V_CHECK("read: cursor denotes FLAT[r..): first remaining byte", IMP(r < ftotal, msg.used > 0 && *(const uint8_t *) msg.base == FLAT(r)));
	V_CHECK("read: cursor stays inside the fragment list", msg.clen <= 2 && msg.cont == fv + 1 + (2 - msg.clen));
	/* a second read continues where the first stopped */
	{
		IN(size_t, in_n2); uint8_t one = 0; size_t r2;
		V_REQ(in_n2 == 1);
		r2 = mpt_message_read(&msg, in_n2, &one);
		V_CHECK("read: continuation delivers FLAT[r]", r < ftotal ? (r2 == 1 && one == FLAT(r)) : r2 == 0);
	}
	V_COVER("read spans all three fragments", r > fl0 + fl1 && fl0 > 0 && fl1 > 0);
	V_COVER("empty middle fragment", fl1 == 0 && r > fl0 && fl0 > 0);
	V_COVER("short read", r < in_n);
	V_CANARY();
}
