/* C02 units over the receiving side's bookkeeping: queue_shift ("drop the consumed prefix while keeping the decode
 * offsets") and queue_recv ("decode in place at the queue front; MissingBuffer recovery by prepending queue space").
 * The queue is the C13 deque view (QV); mpt_qpre / mpt_queue_crop / mpt_queue_data / mpt_queue_empty are the real
 * (loop-free) bodies.  The decoder is a stand-in of the decoder interface: it checks what it is handed and answers
 * with any verdict and any new state that the interface allows. */
#include "../C13/queue_spec.h"
#include "message.h"
#include "convert.h"
size_t g_len, g_off, g_max, g_k1, g_k2, g_p; void *g_base; uint8_t g_v1, g_v2, g_vp;
typedef MPT_STRUCT(decode_queue) dq_t;
static uint8_t h_st[CAP];
/* decoder state invariant: message window inside the consumed input, consumed input inside the queue content */
#define D_WF(d, qlen)  ((d)->data.pos <= (d)->curr && (d)->data.len <= (d)->curr - (d)->data.pos && (d)->curr <= (qlen) && \
                        ((d)->data.msg < 0 || (size_t) (d)->data.msg <= (d)->data.len))

#ifdef UNIT_SHIFT
void harness(void)
{
	IN(size_t, in_max); IN(size_t, in_len); IN(size_t, in_off); IN(size_t, in_curr); IN(size_t, in_pos); IN(size_t, in_mlen); IN(ssize_t, in_msg); IN(size_t, in_k); IN(uintptr_t, in_ctx);
	uint8_t in_content[CAP]; dq_t dq; size_t i, drop; uint8_t vk = 0;
	V_FILL(in_content);
	V_REQ(in_max >= 1 && in_max <= CAP && in_len <= in_max && in_off < in_max);
	for (i = 0; i < CAP; i++) h_st[i] = in_content[i];
	dq.data.base = h_st; dq.data.max = in_max; dq.data.len = in_len; dq.data.off = in_off; dq._dec = 0;
	dq._state._ctx = in_ctx; dq._state.curr = in_curr; dq._state.data.pos = in_pos; dq._state.data.len = in_mlen; dq._state.data.msg = in_msg;
	V_REQ(D_WF(&dq._state, in_len));
	if (in_k < in_len) vk = QV(&dq.data, in_k);
	mpt_queue_shift(&dq);
	drop = in_len - dq.data.len;
	V_CHECK("shift: queue stays well formed, only front bytes leave", Q_WF(&dq.data) && dq.data.len <= in_len && dq.data.max == in_max && dq.data.base == (void *) h_st);
	V_CHECK("shift: never drops undecoded input", drop <= in_curr);
	V_CHECK("shift: never drops bytes of the message window", IMP(in_pos || in_mlen, drop <= in_pos));
	V_CHECK("shift: every kept byte keeps its order (view'[k - drop] == view[k])", IMP(in_k >= drop && in_k < in_len, QV(&dq.data, in_k - drop) == vk));
	V_CHECK("shift: input position and message window move by exactly the dropped amount", dq._state.curr == in_curr - drop && dq._state.data.len == in_mlen && dq._state.data.msg == in_msg && IMP(in_pos || in_mlen, dq._state.data.pos == in_pos - drop));
	V_CHECK("shift: decoder state stays consistent with the queue", D_WF(&dq._state, dq.data.len));
	V_CHECK("shift: everything in front of the window is released (all consumed input when no window is open)", IMP(!(in_pos || in_mlen), drop == in_curr) && IMP(in_pos || in_mlen, drop == (in_pos < in_curr ? in_pos : in_curr)));
	/* the in-place decoders write behind the message window and need at least one already consumed byte there while a
	 * frame is open (decoder context != 0): with no room they report 'incomplete' on every later call */
	V_CHECK("shift: an open frame keeps room for the in-place decoder (message window open)", IMP(in_ctx != 0 && (in_pos || in_mlen) && in_curr > in_pos + in_mlen, dq._state.curr > dq._state.data.pos + dq._state.data.len));
	V_CHECK("shift: an open frame keeps room for the in-place decoder (no decoded byte yet)", IMP(in_ctx != 0 && !(in_pos || in_mlen) && in_curr > 0, dq._state.curr > 0));
	V_CHECK("shift: decoder context untouched", dq._state._ctx == in_ctx);
	V_COVER("window kept, prefix dropped over the wrap", drop > 0 && in_mlen > 0 && in_off + drop > in_max);
	V_COVER("everything consumed dropped", drop == in_curr && in_curr > 2 && !in_mlen);
	V_CANARY();
}
#elif defined(UNIT_PEEK)
/* mpt_queue_peek with a decoder: the decoder is offered (peek mode, source count 0) ONE fragment that lies inside the
 * queue storage and starts at the logical position in front of the message window / input position; the queue and
 * its bytes are not touched, the decoder offsets are restored. */
static dq_t *g_q; static int g_calls, g_bad; static const uint8_t *g_fbase; static size_t g_flen;
static int h_dec(MPT_STRUCT(decode_state) *st, const struct iovec *src, size_t n)
{
	(void) st; g_calls++;
	if (n != 0) g_bad = 1;
	g_fbase = src->iov_base; g_flen = src->iov_len;
	return 0;
}
void harness(void)
{
	IN(size_t, in_max); IN(size_t, in_len); IN(size_t, in_off); IN(size_t, in_curr); IN(size_t, in_pos); IN(size_t, in_mlen); IN(size_t, in_k);
	uint8_t in_content[CAP]; dq_t dq; size_t i, skip, phys; ssize_t r; uint8_t vk = 0;
	V_FILL(in_content);
	V_REQ(in_max >= 1 && in_max <= CAP && in_len <= in_max && in_off < in_max);
	for (i = 0; i < CAP; i++) h_st[i] = in_content[i];
	dq.data.base = h_st; dq.data.max = in_max; dq.data.len = in_len; dq.data.off = in_off; dq._dec = h_dec;
	dq._state._ctx = 0; dq._state.curr = in_curr; dq._state.data.pos = in_pos; dq._state.data.len = in_mlen; dq._state.data.msg = -1;
	V_REQ(D_WF(&dq._state, in_len));
	g_q = &dq;
	if (in_k < in_max) vk = h_st[in_k];
	r = mpt_queue_peek(&dq, 0, 0);
	skip = in_pos < in_curr ? in_pos : in_curr;
	phys = in_off + skip >= in_max ? in_off + skip - in_max : in_off + skip;
	V_CHECK("peek: an empty queue is reported without decoding", IMP(in_len == 0, r < 0 && g_calls == 0));
	if (g_calls) {
		V_CHECK("peek: decoder called once, in peek mode", g_calls == 1 && !g_bad);
		V_CHECK("peek: the fragment offered lies inside the queue storage", g_fbase >= h_st && g_flen <= in_max && (size_t) (g_fbase - h_st) <= in_max - g_flen);
		V_CHECK("peek: it starts at the logical position in front of the window and holds only queued bytes", (g_flen == 0 || g_fbase == h_st + phys) && g_flen <= in_len - skip);
	}
	V_CHECK("peek: queue and decoder offsets are what they were", dq.data.len == in_len && dq.data.off == in_off && dq.data.max == in_max && dq._state.curr == in_curr && dq._state.data.pos == in_pos && dq._state.data.len == in_mlen);
	V_CHECK("peek: no queue byte is written", IMP(in_k < in_max, h_st[in_k] == vk));
	V_COVER("wrapped content peeked", g_calls == 1 && in_off + in_len > in_max && g_flen > 0);
	V_CANARY();
}
#else
/* ---- decoder stand-in ---- */
static dq_t *g_q; static int g_calls, g_bad, g_ret[2]; static size_t g_ncurr[2], g_npos[2], g_nlen[2]; static ssize_t g_nmsg[2];
static size_t g_seen_curr[2], g_seen_pos[2], g_seen_len[2], g_seen_qlen[2]; static uint8_t g_seen_k[2]; static size_t g_kk;
static int h_dec(MPT_STRUCT(decode_state) *st, const struct iovec *src, size_t n)
{
	const queue_t *q = &g_q->data; int c = g_calls < 2 ? g_calls : 1; size_t total;
	g_calls++;
	/* the source vector is exactly the logical queue content in at most two fragments */
	if (n < 1 || n > 2) { g_bad = 1; return MPT_ERROR(BadArgument); }
	total = src[0].iov_len + (n == 2 ? src[1].iov_len : 0);
	if (total != q->len) g_bad = 1;
	if (src[0].iov_base != (void *) (h_st + (q->off == q->max ? 0 : q->off)) && !(q->off == q->max && src[0].iov_len == 0)) g_bad = 1;
	if (n == 2 && (src[1].iov_base != (void *) h_st || src[0].iov_len != q->max - q->off)) g_bad = 1;
	if (n == 1 && q->off + q->len > q->max) g_bad = 1;
	if (!D_WF(st, q->len)) g_bad = 1;
	g_seen_curr[c] = st->curr; g_seen_pos[c] = st->data.pos; g_seen_len[c] = st->data.len; g_seen_qlen[c] = q->len;
	if (g_kk < (c ? g_seen_qlen[0] : q->len) && q->len >= g_seen_qlen[0]) g_seen_k[c] = QV(q, g_kk + (c ? q->len - g_seen_qlen[0] : 0));
	/* any answer the interface allows */
	if (g_ret[c] >= 0) {
		st->curr = g_ncurr[c]; st->data.pos = g_npos[c]; st->data.len = g_nlen[c]; st->data.msg = g_nmsg[c];
	}
	return g_ret[c];
}
static int g_shifts;
void mpt_queue_shift(dq_t *q) { (void) q; g_shifts++; }                  /* own unit: queue_shift */
void harness(void)
{
	IN(size_t, in_max); IN(size_t, in_len); IN(size_t, in_off); IN(size_t, in_curr); IN(size_t, in_pos); IN(size_t, in_mlen); IN(size_t, in_k);
	IN(int, in_r0); IN(int, in_r1); IN(size_t, in_c0); IN(size_t, in_p0); IN(size_t, in_l0); IN(ssize_t, in_m0); IN(size_t, in_c1); IN(size_t, in_p1); IN(size_t, in_l1); IN(ssize_t, in_m1);
	uint8_t in_content[CAP]; dq_t dq; size_t i, grow; int r;
	V_FILL(in_content);
	V_REQ(in_max >= 1 && in_max <= CAP && in_len <= in_max && in_off < in_max);
	for (i = 0; i < CAP; i++) h_st[i] = in_content[i];
	dq.data.base = h_st; dq.data.max = in_max; dq.data.len = in_len; dq.data.off = in_off; dq._dec = h_dec;
	dq._state._ctx = 0; dq._state.curr = in_curr; dq._state.data.pos = in_pos; dq._state.data.len = in_mlen; dq._state.data.msg = -1;
	V_REQ(D_WF(&dq._state, in_len));
	g_q = &dq; g_kk = in_k; g_ret[0] = in_r0; g_ret[1] = in_r1;
	g_ncurr[0] = in_c0; g_npos[0] = in_p0; g_nlen[0] = in_l0; g_nmsg[0] = in_m0; g_ncurr[1] = in_c1; g_npos[1] = in_p1; g_nlen[1] = in_l1; g_nmsg[1] = in_m1;
	r = mpt_queue_recv(&dq);
	grow = dq.data.len - in_len;
	V_CHECK("recv: the decoder is handed exactly the logical queue content (<= 2 fragments) and a consistent state, every time", !g_bad);
	V_CHECK("recv: an empty queue is reported without decoding", IMP(in_len == 0, r == MPT_ERROR(MissingData) && g_calls == 0));
	V_CHECK("recv: at most one retry", g_calls <= 2 && IMP(in_len, g_calls >= 1));
	V_CHECK("recv: a retry happens only after MissingBuffer with room left, and offers more space than before", IMP(g_calls == 2, in_r0 == MPT_ERROR(MissingBuffer) && in_len < in_max && grow >= 1 && dq.data.len <= in_max));
	V_CHECK("recv: prepended space shifts input position and message window by the same amount", IMP(g_calls == 2, g_seen_curr[1] == in_curr + grow && g_seen_pos[1] == in_pos + grow && g_seen_len[1] == in_mlen));
	/* the decoder asked for target space (room between the end of its message window and its input position): a
	 * retry that offers it exactly as much as before cannot succeed */
	V_CHECK("recv: the retry after MissingBuffer offers the decoder more target space than the refused attempt", IMP(g_calls == 2, g_seen_curr[1] - (g_seen_pos[1] + g_seen_len[1]) > g_seen_curr[0] - (g_seen_pos[0] + g_seen_len[0])));
	V_CHECK("recv: the retry sees the same bytes behind the new space (content unchanged, only moved)", IMP(g_calls == 2 && in_k < in_len, g_seen_k[1] == g_seen_k[0]));
	V_CHECK("recv: message reported exactly when the decoder delivered one; errors handed through", IMP(g_calls == 1 && in_r0 >= 0, r == (in_m0 >= 0 ? 1 : 0)) && IMP(g_calls == 2 && in_r1 >= 0, r == (in_m1 >= 0 ? 1 : 0)) && IMP(g_calls == 2 && in_r1 < 0, r == in_r1) && IMP(g_calls == 1 && in_r0 < 0, r == in_r0 || (in_r0 == MPT_ERROR(MissingBuffer) && r == MPT_ERROR(MissingBuffer))));
	V_CHECK("recv: consumed prefix is released after every successful decode, never after a failed one", g_shifts == (r >= 0 ? 1 : 0));
	V_CHECK("recv: a full queue that needs more space reports it", IMP(in_len == in_max && in_r0 == MPT_ERROR(MissingBuffer), r == MPT_ERROR(MissingBuffer) && g_calls == 1));
	V_COVER("retry over a wrapped queue delivers a message", g_calls == 2 && r == 1 && in_off + in_len > in_max);
	V_COVER("message on first attempt", g_calls == 1 && r == 1);
	V_CANARY();
}
#endif
