/* C02 units stream.cut<K>: the receiving side end to end on the real bodies (mpt_queue_recv, mpt_queue_shift,
 * mpt_qpre, mpt_queue_crop and the real COBS decoder): one well-formed frame of NB symbolic bytes reaches the
 * queue in two segments, the first of CUT bytes; the reader polls after each segment.  Decided (bounded): nothing
 * is delivered before the frame is complete; once it is complete the message becomes available (no stall) and is
 * byte for byte what the reference decoder reads from the uncut frame.  CUT, NB and the queue's start offset OFF are
 * constants of the unit (a symbolic offset exhausted 10 GB in symbolic execution, measured); the frame content, and
 * with it the block structure, is symbolic. */
#include "verif.h"
#include <sys/uio.h>
#include "queue.h"
#include "message.h"
#include "convert.h"
#ifndef NB
# define NB 4
#endif
#ifndef CUT
# define CUT 2
#endif
#ifndef OFF
# define OFF 0
#endif
#ifndef QCAP
# define QCAP 16
#endif
#ifndef DEC_FN
# define DEC_FN mpt_decode_cobs
# define REF_MAXLEN 255
# define REF_ZPE 0
# define REF_INLINE 0
#endif
#include "../C03/ref_decode.h"
static uint8_t h_st[QCAP];
/* queue append by the transport: the C13 contract of mpt_qpush (own unit) as executable stand-in */
static void h_deliver(MPT_STRUCT(queue) *q, const uint8_t *src, size_t n)
{
	size_t i;
	for (i = 0; i < NB; i++) if (i < n) { size_t p = q->off + q->len + i; if (p >= q->max) p -= q->max; ((uint8_t *) q->base)[p] = src[i]; }
	q->len += n;
}
void harness(void)
{
	uint8_t in_frame[NB], ref_out[OUTMAX]; const size_t in_off = OFF; IN(size_t, in_k);
	MPT_STRUCT(decode_queue) dq = MPT_DECODE_QUEUE_INIT; size_t used = 0, i; int ref, r1, r2 = 0, r3 = 0;
	V_FILL(in_frame);
	ref = ref_decode(in_frame, NB, ref_out, &used);
	V_REQ(ref >= 0 && used == NB);                     /* exactly one well-formed frame */
	for (i = 0; i < QCAP; i++) h_st[i] = 0xee;
	dq.data.base = h_st; dq.data.max = QCAP; dq.data.off = in_off; dq.data.len = 0; dq._dec = DEC_FN;
	h_deliver(&dq.data, in_frame, CUT);
	r1 = mpt_queue_recv(&dq);
	V_CHECK("stream: nothing is delivered before the frame is complete", r1 != 1);
	h_deliver(&dq.data, in_frame + CUT, NB - CUT);
	r2 = mpt_queue_recv(&dq);
	if (r2 != 1) r3 = mpt_queue_recv(&dq);          /* a reader that polls again */
#if CUT == 1
	V_CHECK("stream: complete frame is delivered (cut directly behind the first code byte)", r2 == 1 || r3 == 1);
#else
	V_CHECK("stream: complete frame is delivered (cut inside the frame, not directly behind the first code byte)", r2 == 1 || r3 == 1);
#endif
	if (r2 == 1 || r3 == 1) {
		size_t pos = dq._state.data.pos;
		V_CHECK("stream: delivered message has the reference decoder's length", dq._state.data.msg == (ssize_t) ref);
		V_CHECK("stream: delivered message has the reference decoder's bytes", IMP(in_k < (size_t) ref, h_st[(dq.data.off + pos + in_k) % QCAP] == ref_out[in_k]));
		V_CHECK("stream: the whole frame is consumed, nothing else", dq._state.curr == dq.data.len);
	}
	V_COVER("two data bytes delivered", (r2 == 1 || r3 == 1) && ref == 2);
	V_CANARY();
}
