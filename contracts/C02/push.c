/* C02 unit queue_push.enc: "encoder driven over the ring buffer incl. wrap / out-of-band scratch copy".
 * The queue is the C13 deque view; the encoder is a stand-in of the encoder interface as the C01 contracts describe
 * it (state = finished bytes `done` + open block `scratch` inside the output vector; a data call consumes a prefix
 * of the source, appends at least as many bytes behind done+scratch, may close blocks (done grows), or asks for
 * space and leaves the state; a terminating call appends the delimiter and closes everything).  Every byte of the
 * logical encoded stream carries a position mark, so that
 *     after any push: queue content == the encoded stream so far, byte for byte, in order
 * can be read off the view.  mpt_queue_get/_set/_align are stand-ins of their C13 contracts.  Bounded: capacity CAP. */
#include "../C13/queue_spec.h"
#include "message.h"
#include "convert.h"
size_t g_len, g_off, g_max, g_k1, g_k2, g_p; void *g_base; uint8_t g_v1, g_v2, g_vp;
typedef MPT_STRUCT(encode_queue) eq_t;
static uint8_t h_st[CAP];
#define MARK(i) ((uint8_t) (0x41 + (i)))
static eq_t *g_q; static size_t g_tot, g_consumed, g_srclen, g_j; static const uint8_t *g_src; static int g_calls, g_bad_src, g_bad_scratch, g_bad_vec, g_aborts;
void _mpt_abort(const char *t, const char *fn, const char *file, int line) { (void) t; (void) fn; (void) file; (void) line; g_aborts++; __CPROVER_assume(0); }

static ssize_t h_enc(MPT_STRUCT(encode_state) *st, const struct iovec *out, const struct iovec *src)
{
	size_t room, w, take, nd, i; uint8_t *o;
	if (!out) { st->done = st->scratch = 0; st->_ctx = 0; return 0; }
	g_calls++;
	o = out->iov_base;
	if (st->done > out->iov_len || st->scratch > out->iov_len - st->done) return -1;      /* state does not fit the vector */
	/* the open block the encoder finds behind `done` is the tail of the stream written so far */
	if (g_j < st->scratch && o[st->done + g_j] != MARK(g_tot - st->scratch + g_j)) g_bad_scratch = 1;
	room = out->iov_len - st->done - st->scratch;
	if (!src) {                                         /* terminate: one delimiter byte (two for an empty message) */
		w = st->scratch ? 1 : 2;
		if (room < w) return MPT_ERROR(MissingBuffer);
		for (i = 0; i < 2; i++) if (i < w) o[st->done + st->scratch + i] = MARK(g_tot + i);
		g_tot += w; st->done += st->scratch + w; st->scratch = 0;
		return 0;
	}
	if (src->iov_base != (const void *) (g_src + g_consumed) || src->iov_len != g_srclen - g_consumed || !src->iov_len) g_bad_src = 1;
	if (room < 2) return MPT_ERROR(MissingBuffer);
	V_ND(size_t, take); V_ND(size_t, w); V_ND(size_t, nd);
	__CPROVER_assume(take >= 1 && take <= src->iov_len && w >= take && w <= take + 1 && w <= room);
	__CPROVER_assume(take == src->iov_len || room - w <= 1);         /* stops early only when the space is used up */
	for (i = 0; i < CAP; i++) if (i < w) o[st->done + st->scratch + i] = MARK(g_tot + i);
	g_tot += w; g_consumed += take;
	__CPROVER_assume(nd <= st->scratch + w - 1);                       /* blocks may be closed: done grows, the rest stays open */
	st->done += nd; st->scratch = st->scratch + w - nd;
	return (ssize_t) take;
}
/* C13 contracts as executable stand-ins */
int mpt_queue_get(const queue_t *q, size_t pos, size_t len, void *data)
{
	size_t i; if (pos > q->len || len > q->len - pos) return MPT_ERROR(MissingData);
	for (i = 0; i < CAP; i++) if (i < len) ((uint8_t *) data)[i] = QV(q, pos + i);
	return 0;
}
int mpt_queue_set(const queue_t *q, size_t pos, size_t len, const void *data)
{
	size_t i; if (pos > q->len || len > q->len - pos) return MPT_ERROR(MissingData);
	for (i = 0; i < CAP; i++) if (i < len) ((uint8_t *) q->base)[Q_IDX(q->off, q->max, pos + i)] = ((const uint8_t *) data)[i];
	return 0;
}
void mpt_queue_align(queue_t *q, size_t pos)
{
	uint8_t tmp[CAP]; size_t i;
	if (pos != 0 || !Q_WF(q)) { g_bad_vec = 1; return; }
	for (i = 0; i < CAP; i++) tmp[i] = i < q->len ? QV(q, i) : 0xee;
	for (i = 0; i < CAP; i++) if (i < q->max) ((uint8_t *) q->base)[i] = tmp[i];
	q->off = 0;
}

#ifdef UNIT_RAW
/* unencoded queue: push appends the caller's bytes to the open part, a zero-length push finishes everything,
 * a push without data drops the open part */
int mpt_qpush(queue_t *q, size_t len, const void *data)            /* contract of C13 unit qpush as stand-in */
{
	size_t i; if (!Q_WF(q) || len > q->max - q->len) return MPT_ERROR(MissingBuffer);
	for (i = 0; i < CAP; i++) if (i < len) ((uint8_t *) q->base)[Q_IDX(q->off, q->max, q->len + i)] = ((const uint8_t *) data)[i];
	q->len += len; return 0;
}
void harness(void)
{
	IN(size_t, in_max); IN(size_t, in_off); IN(size_t, in_done); IN(size_t, in_scratch); IN(size_t, in_qlen); IN(size_t, in_len); IN(int, in_mode); IN(size_t, in_k);
	uint8_t in_data[CAP]; eq_t eq; size_t i; ssize_t r; uint8_t vk = 0;
	V_FILL(in_data);
	V_REQ(in_max >= 1 && in_max <= CAP && in_off < in_max && in_qlen <= in_max && in_done <= in_qlen && in_scratch <= in_qlen && in_len <= CAP && in_len >= 1);
	for (i = 0; i < CAP; i++) h_st[i] = MARK(i);
	eq.data.base = h_st; eq.data.max = in_max; eq.data.off = in_off; eq.data.len = in_qlen;
	eq._state._ctx = 0; eq._state.done = in_done; eq._state.scratch = in_scratch; eq._enc = 0;
	if (in_k < in_qlen) vk = QV(&eq.data, in_k);
	if (in_mode == 0) r = mpt_queue_push(&eq, 0, 0); else if (in_mode == 1) r = mpt_queue_push(&eq, in_len, 0); else r = mpt_queue_push(&eq, in_len, in_data);
	V_CHECK("raw: queue stays well formed", Q_WF(&eq.data));
	if (in_mode == 0) {
		V_CHECK("raw finish: everything queued counts as finished, nothing changes in the queue", r == (ssize_t) in_qlen && eq._state.done == in_qlen && eq._state.scratch == 0 && eq.data.len == in_qlen);
	} else if (in_mode == 1) {
		V_CHECK("raw drop: only an open part can be dropped, and only it is dropped", IMP(r >= 0, in_scratch > 0 && in_len <= 1 && eq.data.len == in_done && eq._state.done == in_done && eq._state.scratch == 0) && IMP(r < 0, eq.data.len == in_qlen && eq._state.done == in_done && eq._state.scratch == in_scratch));
	} else {
		size_t room = in_max - in_qlen, want = in_len < room ? in_len : room;
		V_CHECK("raw data: inconsistent state is refused without change", IMP(in_done + in_scratch != in_qlen, r < 0 && eq.data.len == in_qlen));
		V_CHECK("raw data: a full queue asks for space", IMP(in_done + in_scratch == in_qlen && !room, r == MPT_ERROR(MissingBuffer) && eq.data.len == in_qlen));
		V_CHECK("raw data: as many bytes as fit are appended to the open part, in order", IMP(in_done + in_scratch == in_qlen && room, r == (ssize_t) want && eq.data.len == in_qlen + want && eq._state.scratch == in_scratch + want && eq._state.done == in_done && IMP(in_k < want, QV(&eq.data, in_qlen + in_k) == in_data[in_k])));
	}
	V_CHECK("raw: bytes queued earlier keep their place (except a dropped open part)", IMP(in_k < eq.data.len && in_k < in_qlen, QV(&eq.data, in_k) == vk));
	V_COVER("partial append over the wrap", in_mode == 2 && r > 0 && (size_t) r < in_len && in_off + in_qlen < in_max && in_off + in_qlen + r > in_max);
	V_COVER("open part dropped", in_mode == 1 && r == 0);
	V_CANARY();
}
#else
void harness(void)
{
	IN(size_t, in_max); IN(size_t, in_off); IN(size_t, in_done); IN(size_t, in_scratch); IN(size_t, in_len); IN(int, in_term); IN(size_t, in_k); IN(size_t, in_j);
	static uint8_t data[CAP]; eq_t eq; size_t i, qlen; ssize_t r;
	V_REQ(in_max >= 1 && in_max <= CAP && in_off < in_max && in_done <= in_max && in_scratch <= in_max - in_done && in_len <= CAP);
	qlen = in_done + in_scratch;
	for (i = 0; i < CAP; i++) h_st[i] = 0xee;
	eq.data.base = h_st; eq.data.max = in_max; eq.data.off = in_off; eq.data.len = qlen;
	for (i = 0; i < CAP; i++) if (i < qlen) h_st[Q_IDX(in_off, in_max, i)] = MARK(i);          /* the stream encoded so far */
	eq._state._ctx = 0; eq._state.done = in_done; eq._state.scratch = in_scratch; eq._enc = h_enc;
	g_q = &eq; g_tot = qlen; g_consumed = 0; g_src = data; g_srclen = in_term ? 0 : in_len; g_j = in_j;
	V_REQ(in_term || in_len >= 1);
	if (in_term) r = mpt_queue_push(&eq, 0, 0); else r = mpt_queue_push(&eq, in_len, data);
	V_CHECK("push: the encoder always finds its open block where the stream left it (vector base / scratch copy)", !g_bad_scratch);
	V_CHECK("push: the encoder is handed the not yet consumed rest of the caller's data, in order", !g_bad_src);
	V_CHECK("push: stand-in contracts of get/set/align respected", !g_bad_vec);
	V_CHECK("push: queue length = finished + open bytes = everything the encoder wrote", Q_WF(&eq.data) && eq.data.len == eq._state.done + eq._state.scratch && eq.data.len == g_tot);
	V_CHECK("push: queue content is the encoded stream so far, byte for byte, in order", IMP(in_k < g_tot, QV(&eq.data, in_k) == MARK(in_k)));
	V_CHECK("push: reports the bytes consumed by the encoder", IMP(r >= 0, (size_t) r == g_consumed) && IMP(r < 0, g_consumed == 0));
	V_CHECK("push: finished data never shrinks", eq._state.done >= in_done);
	V_COVER("second encoder call after the lower part filled up", g_calls >= 2 && r > 0 && g_consumed == in_len);
	V_COVER("appended in the upper part behind earlier upper-part data", g_calls == 1 && r > 0 && in_off > 0 && in_done > in_max - in_off);
	V_COVER("open block wraps: out-of-band copy", g_calls >= 1 && r > 0 && in_off > 0 && in_done < in_max - in_off && in_done + in_scratch > in_max - in_off);
	V_COVER("terminated", in_term && r == 0 && eq._state.scratch == 0 && eq._state.done == qlen + 1);
	V_CANARY();
}
#endif
