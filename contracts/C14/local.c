/* C14 units local.*: link operations touch a fixed neighbourhood, so their contracts need no bound on
 * the tree: the nodes live in a pool of NP objects whose link fields are symbolic (any node of the pool
 * or none), constrained only by LOCAL consistency of the nodes the operation looks at.  Afterwards the
 * neighbourhood is locally consistent again and every link field of every other node is unchanged. */
#include "verif.h"
#include <errno.h>
#include <sys/uio.h>
#include "types.h"
#include "node.h"
#define NP 6
typedef MPT_STRUCT(node) node_t;
static node_t P[NP], O[NP];
static node_t *pick(int i) { return (i >= 0 && i < NP) ? &P[i] : 0; }
/* local consistency of one node with respect to its direct neighbours */
static int lc(const node_t *n)
{
	if (n->next && (n->next->prev != n || n->next->parent != n->parent)) return 0;
	if (n->prev && (n->prev->next != n || n->prev->parent != n->parent)) return 0;
	if (!n->prev && n->parent && n->parent->children != n) return 0;
	if (n->next == n || n->prev == n || n->parent == n || n->children == n) return 0;
	return 1;
}
static int same(int i) { return P[i].next == O[i].next && P[i].prev == O[i].prev && P[i].parent == O[i].parent && P[i].children == O[i].children; }

#ifdef UNIT_DESTROY
/* what a destroy that is NOT refused goes on to call: recording stand-ins, so that proceeding is an observable failure */
static int g_proceeded;
void mpt_node_clear(node_t *n) { (void) n; g_proceeded++; }
void *mpt_identifier_set(MPT_STRUCT(identifier) *id, const char *name, int len) { (void) id; (void) name; (void) len; g_proceeded++; return 0; }
#endif
void harness(void)
{
	/* roles: P[0] = a (position / node operated on), P[1] = b (inserted node), P[2] = a's successor, P[3] = a's
	 * predecessor, P[4] = a's parent, P[5] = any other node; which neighbours exist is symbolic, and so is every
	 * link that leads out of the neighbourhood (to the outsider or nowhere) */
	IN(int, in_has_next); IN(int, in_has_prev); IN(int, in_has_par); IN(int, in_g); int in_out[12]; V_FILL(in_out);
	node_t *a = &P[0], *b = &P[1], *X = &P[5]; int i, in_a = 0, in_b = 1;
#define OUT(k_) (in_out[k_] ? X : (node_t *) 0)
	for (i = 0; i < NP; i++) { P[i]._meta = 0; P[i].next = P[i].prev = P[i].parent = P[i].children = 0; }
	if (in_has_par) { a->parent = &P[4]; P[4].parent = OUT(0); P[4].next = OUT(1); P[4].prev = OUT(2); }
	if (in_has_next) { a->next = &P[2]; P[2].prev = a; P[2].parent = a->parent; P[2].next = OUT(3); P[2].children = OUT(4); }
	if (in_has_prev) { a->prev = &P[3]; P[3].next = a; P[3].parent = a->parent; P[3].prev = OUT(5); P[3].children = OUT(6); }
	if (in_has_par) P[4].children = in_has_prev ? (in_out[5] ? X : &P[3]) : a;
	a->children = OUT(7); b->children = OUT(8);
	X->next = OUT(9); X->prev = OUT(10); X->parent = in_out[11] ? &P[4] : 0; X->children = 0;
	/* the outsider is only a stand-in for "somewhere else": where it is linked INTO the neighbourhood it must be consistent */
	V_REQ(IMP(in_out[3], X->prev == &P[2] && X->parent == P[2].parent) && IMP(in_out[5], X->next == &P[3] && X->parent == P[3].parent));
	V_REQ(!(in_out[3] && in_out[5]) && !in_out[9] && !in_out[10]);
	for (i = 0; i < NP; i++) O[i] = P[i];
	V_REQ(in_g >= 0 && in_g < NP);
#if defined(UNIT_AFTER) || defined(UNIT_BEFORE)
	{
		node_t *ret, *onext = a->next, *oprev = a->prev, *opar = a->parent;
		/* position a is consistently linked, the inserted node b is isolated and not a itself or a neighbour */
		V_REQ(lc(a) && (!a->next || lc(a->next)) && (!a->prev || lc(a->prev)));
# ifdef UNIT_AFTER
		ret = mpt_gnode_after(a, b);
		V_CHECK("after: b directly follows a, a's old successor follows b", ret == b && a->next == b && b->prev == a && b->next == onext && IMP(onext, onext->prev == b));
		V_CHECK("after: b joins a's sibling list under a's parent", b->parent == opar && a->parent == opar && a->prev == oprev);
# else
		ret = mpt_gnode_before(a, b);
		V_CHECK("before: b directly precedes a, a's old predecessor precedes b", ret == b && a->prev == b && b->next == a && b->prev == oprev && IMP(oprev, oprev->next == b));
		V_CHECK("before: b joins a's sibling list; as new head it becomes the parent's first child", b->parent == opar && a->next == onext && IMP(!oprev && opar, opar->children == b));
# endif
		V_CHECK("insert: the neighbourhood is locally consistent again", lc(a) && lc(b) && IMP(b->next, lc(b->next)) && IMP(b->prev, lc(b->prev)));
		V_CHECK("insert: b's own children are untouched", b->children == O[in_b].children);
		V_CHECK("insert: no link of any node outside the neighbourhood changes", IMP(&P[in_g] != a && &P[in_g] != b && &P[in_g] != onext && &P[in_g] != oprev && &P[in_g] != opar, same(in_g)));
		V_CHECK("insert: of the parent only the first-child link may change", IMP(opar, opar->next == O[opar - P].next && opar->prev == O[opar - P].prev && opar->parent == O[opar - P].parent));
		V_COVER("in the middle of a list", onext && oprev);
		V_COVER("at the head under a parent", !oprev && opar);
	}
#elif defined(UNIT_UNLINK)
	{
		node_t *ret, *onext = a->next, *oprev = a->prev, *opar = a->parent;
		V_REQ(lc(a) && (!a->next || lc(a->next)) && (!a->prev || lc(a->prev)));
		ret = mpt_node_unlink(a);
		V_CHECK("unlink: the node is isolated, keeps its children", !a->next && !a->prev && !a->parent && a->children == O[in_a].children && ret == onext);
		V_CHECK("unlink: its neighbours are joined", IMP(onext, onext->prev == oprev) && IMP(oprev, oprev->next == onext));
		V_CHECK("unlink: a removed head hands the first-child link to its successor", IMP(!oprev && opar, opar->children == onext));
		V_CHECK("unlink: the neighbours stay locally consistent", IMP(onext, lc(onext)) && IMP(oprev, lc(oprev)));
		V_CHECK("unlink: no link of any node outside the neighbourhood changes", IMP(&P[in_g] != a && &P[in_g] != onext && &P[in_g] != oprev && &P[in_g] != opar, same(in_g)));
		V_COVER("head of a list with parent", !oprev && opar && onext);
		V_COVER("middle", oprev && onext);
	}
#elif defined(UNIT_SWITCH)
	{
		/* mpt_gnode_switch(a, b) with b isolated: b takes a's place in the structure, a becomes isolated; the children of
		 * both stay where they are.  Split by "a has a successor" (known finding: parent links are then not exchanged). */
		node_t *onext = a->next, *oprev = a->prev, *opar = a->parent;
		V_REQ(lc(a) && (!a->next || lc(a->next)) && (!a->prev || lc(a->prev)));
		mpt_gnode_switch(a, b);
		V_CHECK("switch: sibling links are exchanged", b->next == onext && b->prev == oprev && IMP(onext, onext->prev == b) && IMP(oprev, oprev->next == b) && !a->next && !a->prev);
		V_CHECK("switch: parent and first-child link follow (replaced node is the last of its list)", IMP(!onext, b->parent == opar && !a->parent && IMP(!oprev && opar, opar->children == b)));
		V_CHECK("switch: parent and first-child link follow (replaced node has a successor)", IMP(onext, b->parent == opar && !a->parent && IMP(!oprev && opar, opar->children == b)));
		V_CHECK("switch: children stay with their nodes", a->children == O[in_a].children && b->children == O[in_b].children);
		V_CHECK("switch: no link of any node outside the neighbourhood changes", IMP(&P[in_g] != a && &P[in_g] != b && &P[in_g] != onext && &P[in_g] != oprev && &P[in_g] != opar, same(in_g)));
		V_COVER("head of a list with parent and successor", !oprev && opar && onext);
		V_COVER("last of a list", oprev && !onext);
	}
#elif defined(UNIT_RELINK)
	{
		/* mpt_gnode_relink after "manual concatenation" (only next / children links set): R -> {n1, n2}, n1 -> {n3, n4},
		 * n3 -> {n5}; which of n2, n4, n5 exist is symbolic.  Afterwards every node names its parent and predecessor.
		 * Split by depth (known finding: the children of a first child are never visited). */
		node_t *R = &P[0], *n1 = &P[1], *n2 = &P[2], *n3 = &P[3], *n4 = &P[4], *n5 = &P[5];
		for (i = 0; i < NP; i++) { P[i].next = P[i].prev = P[i].parent = P[i].children = 0; }
		R->children = n1; if (in_has_next) n1->next = n2;
		n1->children = n3; if (in_has_prev) n3->next = n4;
		if (in_has_par) n3->children = n5;
		mpt_gnode_relink(R);
		V_CHECK("relink: first level names the root, siblings are chained backwards", n1->parent == R && !n1->prev && IMP(in_has_next, n2->parent == R && n2->prev == n1));
		V_CHECK("relink: second level", n3->parent == n1 && !n3->prev && IMP(in_has_prev, n4->parent == n1 && n4->prev == n3));
		V_CHECK("relink: third level (children of a first child)", IMP(in_has_par, n5->parent == n3 && !n5->prev));
		V_CHECK("relink: forward and child links are the reference and stay", R->children == n1 && n1->children == n3 && n1->next == (in_has_next ? n2 : 0) && n3->next == (in_has_prev ? n4 : 0) && !R->parent && !R->prev && !R->next);
		V_COVER("three levels", in_has_par && in_has_next && in_has_prev);
	}
#elif defined(UNIT_INSERT0)
	{
		/* insert as the only child */
		int r;
		V_REQ(!a->children);
		r = mpt_gnode_insert(a, in_g - 2, b);
		V_CHECK("insert(empty parent): b is the only child", r == 0 && a->children == b && b->parent == a && !b->next && !b->prev);
		V_CHECK("insert(empty parent): nothing else changes", a->next == O[in_a].next && a->prev == O[in_a].prev && a->parent == O[in_a].parent && b->children == O[in_b].children && IMP(in_g != in_a && in_g != in_b, same(in_g)));
	}
#elif defined(UNIT_DESTROY)
	{
		node_t *r;
		V_REQ(in_has_par || in_has_next || in_has_prev);
		r = mpt_node_destroy(a);
		V_CHECK("destroy: a node that is still linked is refused and left untouched", r == a && same(in_a) && same(in_g) && !g_proceeded);
	}
#endif
	V_CANARY();
}
