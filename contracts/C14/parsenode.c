/* C14 / C08 unit parse_node.links: mpt_parse_node hands the parsed nodes over to the caller's root.
 * Modular: the parser loop (mpt_parse_config) is replaced by a stand-in that leaves what the real one leaves in the
 * temporary tree - a top-level list of NC nodes whose parent is the function's LOCAL temporary node - and returns any
 * verdict; mpt_node_move / mpt_node_clear are recording stand-ins (their own units are tree.* of C14).
 * Decided here: on failure the root is exactly as before and the temporary tree is cleared; on success every node
 * reachable as child of the root names the root as parent (no link into the dead stack frame), the list is intact. */
#include "verif.h"
#include "node.h"
#include "config.h"
#include "parse.h"
#ifndef NC
# define NC 2
#endif
static MPT_STRUCT(node) h_n[3], h_old;           /* parsed nodes, one pre-existing child of the root */
static MPT_STRUCT(node) *g_tmp; static int g_ret, g_nc, g_clears_tmp, g_clears_root, g_moves, g_bad;
int mpt_parse_format(MPT_STRUCT(parser_format) *f, const char *s) { (void) f; (void) s; return 1; }
static int h_next(void *a, MPT_STRUCT(parser_context) *c, MPT_STRUCT(path) *p) { (void) a; (void) c; (void) p; return 0; }
static int g_has_next;
MPT_TYPE(input_parser) mpt_parse_next_fcn(int fmt) { (void) fmt; return g_has_next ? h_next : 0; }
int mpt_parse_config(MPT_TYPE(input_parser) next, void *npar, MPT_STRUCT(parser_context) *parse, MPT_TYPE(path_handler) save, void *ctx)
{
	MPT_STRUCT(node) **pos = ctx, *tmp = *pos; int i;
	(void) next; (void) npar; (void) parse; (void) save;
	g_tmp = tmp;
	if (tmp->children || tmp->parent || tmp->next || tmp->prev) g_bad = 1;      /* starts from an empty temporary node */
	for (i = 0; i < g_nc; i++) {
		h_n[i].parent = tmp;
		h_n[i].prev = i ? &h_n[i - 1] : 0;
		h_n[i].next = i + 1 < g_nc ? &h_n[i + 1] : 0;
	}
	if (g_nc) { tmp->children = &h_n[0]; *pos = &h_n[g_nc - 1]; }
	return g_ret;
}
void mpt_node_clear(MPT_STRUCT(node) *n)
{
	if (n == g_tmp) { g_clears_tmp++; n->children = 0; }
	else { g_clears_root++; n->children = 0; }
}
size_t mpt_node_move(MPT_STRUCT(node) **from, MPT_STRUCT(node) *to) { (void) from; (void) to; g_moves++; return 0; }

void harness(void)
{
	IN(int, in_ret); IN(int, in_nc); IN(int, in_has_old); IN(int, in_has_next); IN(int, in_k);
	MPT_STRUCT(node) root = MPT_NODE_INIT; MPT_STRUCT(parser_context) p = MPT_PARSER_INIT; int r;
	V_REQ(in_nc >= 0 && in_nc <= NC && in_k >= 0 && in_k < 3);
	g_ret = in_ret; g_nc = in_nc; g_has_next = in_has_next != 0;
	if (in_has_old) { root.children = &h_old; h_old.parent = &root; }
	r = mpt_parse_node(&root, &p, 0);
	V_CHECK("harness: the temporary tree starts empty", !g_bad);
	if (!g_has_next) {
		V_CHECK("unknown format: refused, root untouched", r < 0 && root.children == (in_has_old ? &h_old : 0));
		return;
	}
	V_CHECK("verdict of the parser loop is returned", r == in_ret);
	if (in_ret < 0) {
		V_CHECK("failed parse: the target is exactly as it was", root.children == (in_has_old ? &h_old : 0) && root.parent == 0 && root.next == 0 && root.prev == 0 && IMP(in_has_old, h_old.parent == &root) && g_clears_root == 0 && g_moves == 0);
		V_CHECK("failed parse: the temporary tree is cleared", g_clears_tmp == 1);
	} else {
		V_CHECK("success: parsed top-level list becomes the root's children (old ones merged first)", IMP(in_nc > 0, root.children == &h_n[0]) && IMP(in_nc == 0, root.children == (in_has_old ? &h_old : 0)));
		V_CHECK("success: every parsed top-level node names the root as parent (nothing points into the dead frame)", IMP(in_k < in_nc, h_n[in_k].parent == &root));
		V_CHECK("success: sibling links untouched", IMP(in_k < in_nc, h_n[in_k].next == (in_k + 1 < in_nc ? &h_n[in_k + 1] : 0) && h_n[in_k].prev == (in_k ? &h_n[in_k - 1] : 0)));
	}
	V_COVER("into an empty root", in_ret >= 0 && !in_has_old && in_nc == 2);
	V_COVER("merged into existing children", in_ret >= 0 && in_has_old && in_nc == 2);
	V_COVER("failed", in_ret < 0 && in_nc > 0);
	V_CANARY();
}
