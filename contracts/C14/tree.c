/* C14 unit tree.* (bounded by shape): a tree of a root with <= 3 children, the first of which has <= 2
 * children, built from real nodes (mpt_node_new + names); after positional / by-name insertion,
 * cloning, moving and clearing the whole structure is walked by the harness' well-formedness predicate
 * (links mutually consistent, every child names its parent, first-child link is the list head, expected
 * node count, no node twice) and --memory-leak-check shows every node released exactly once. */
#include "verif.h"
#include <errno.h>
#include <sys/uio.h>
#include "types.h"
#include "meta.h"
#include "node.h"
typedef MPT_STRUCT(node) node_t;
#define MAXN 8

/* node_insert.c passes the two argument mpt_gnode_pos through a three argument function pointer type (the extra
 * argument is ignored by the ABI); CBMC only resolves type compatible targets, so the unit substitutes this
 * wrapper for the cast expression (count-checked textual substitution, see units.json) */
node_t *h_gnode_pos3(const node_t *first, int pos, const node_t *unused) { (void) unused; return mpt_gnode_pos(first, pos); }

/* typed allocation of a node of the default size (64 bytes): CBMC treats malloc(<computed size>) of the real
 * mpt_node_new as an untyped byte array, which defeats field-sensitive symbolic execution of the links (measured:
 * does not finish); the real allocator is checked in unit node.new */
struct h_node { node_t n; char extra[8]; };
#ifndef UNIT_NEW
node_t *mpt_node_new(size_t len)
{
	struct h_node *h = malloc(sizeof(struct h_node));
	(void) len;
	if (!h) return 0;
	h->n._meta = 0; h->n.next = h->n.prev = h->n.parent = h->n.children = 0;
	mpt_identifier_init(&h->n.ident, sizeof(struct h_node) - MPT_offset(node, ident));
	return &h->n;
}
#endif

static node_t *mk(char name)
{
	node_t *n = mpt_node_new(2); char s[2];
	__CPROVER_assume(n != 0);
	s[0] = name; s[1] = 0;
	if (name) mpt_identifier_set(&n->ident, s, 1);
	return n;
}
static char nm(const node_t *n) { const char *d = mpt_identifier_data(&n->ident); return n->ident._len ? d[0] : 0; }
/* sibling list starting at `first` under `parent`: count (<= MAXN) or -1 when a link is inconsistent */
static int wf_list(const node_t *first, const node_t *parent)
{
	int n = 0; const node_t *c = first, *prev = 0;
	if (first && first->prev) return -1;
	while (c && n < MAXN) {
		if (c->prev != prev || c->parent != parent) return -1;
		prev = c; c = c->next; n++;
	}
	return c ? -1 : n;
}
static int wf_tree2(const node_t *root)
{
	int n, total = 1; const node_t *c; int k = 0;
	if ((n = wf_list(root->children, root)) < 0) return -1;
	total += n;
	for (c = root->children; c && k < MAXN; c = c->next, k++) {
		int m = wf_list(c->children, c); const node_t *g; int j = 0;
		if (m < 0) return -1;
		total += m;
		for (g = c->children; g && j < MAXN; g = g->next, j++) if (g->children) return -1;
	}
	return total;
}

#ifdef UNIT_NEW
void harness(void)
{
	IN(size_t, in_len); node_t *n;
	V_REQ(in_len <= 300);
	n = mpt_node_new(in_len);
	V_REQ(n != 0);
	V_CHECK("new: an isolated node without value and with an empty name", !n->_meta && !n->next && !n->prev && !n->parent && !n->children && n->ident._len == 0);
	{
		size_t need = in_len + MPT_offset(node, ident), size = 64;
		if (need > 64 && need <= 0x100) size = need <= 128 ? 128 : 256;
		V_CHECK("new: inline name capacity follows the storage size chosen for the requested length", n->ident._max == size - MPT_offset(node, ident) - 4);
	}
	V_CHECK("new: releasable", mpt_node_destroy(n) == 0);
	V_CANARY();
}
#else
void harness(void)
{
	IN(int, in_nc); IN(int, in_ng); IN(int, in_pos); IN(int, in_op); IN(char, in_name);
	node_t *root = mk('r'), *c[3] = { 0, 0, 0 }, *g[2] = { 0, 0 }, *x; int i, before, after;
	/* the shape is a per-unit constant (NC children, NG grandchildren): with symbolic shapes every link dereference
	 * fans out over all node objects and symbolic execution does not finish (measured) */
	in_nc = NC; in_ng = NG;
	V_REQ(in_name == 'a' || in_name == 'b' || in_name == 'z');
	for (i = 0; i < 3; i++) if (i < in_nc) { c[i] = mk((char) ('a' + i)); mpt_gnode_insert(root, 0, c[i]); }
	for (i = 0; i < 2; i++) if (i < in_ng) { g[i] = mk((char) ('a' + i)); mpt_gnode_insert(c[0], 0, g[i]); }
	before = wf_tree2(root);
	V_CHECK("build: appending children keeps the tree well formed and in order", before == 1 + in_nc + in_ng && IMP(in_nc >= 2, c[0]->next == c[1] && root->children == c[0]));
#if defined(UNIT_ADD)
	{
		/* insert a new node among the root's children by position {first, last, nth, -nth} or by name */
		x = mk(in_name);
		V_REQ(in_pos >= -3 && in_pos <= 4);
		if (in_op) mpt_node_insert(root, in_pos, x); else mpt_gnode_insert(root, in_pos, x);
		after = wf_tree2(root);
		V_CHECK("insert: the tree stays well formed with exactly one node more", after == before + 1);
		V_CHECK("insert: the new node is a child of the root", x->parent == root && x->children == 0);
		V_CHECK("insert: the existing children keep their relative order", IMP(in_nc >= 2, c[0]->next == c[1] || c[0]->next == x) && IMP(in_nc >= 3, c[1]->next == c[2] || c[1]->next == x));
		V_CHECK("insert(position): 0 appends, 1 prepends", IMP(!in_op && in_pos == 0 && in_nc, x->next == 0 && x->prev == c[in_nc - 1]) && IMP(!in_op && in_pos == 1 && in_nc, x->prev == 0 && root->children == x && x->next == c[0]));
#if NC >= 2
		V_COVER("inserted in the middle", x->prev && x->next);
		V_COVER("by name next to its namesake", in_op && x->prev && nm(x->prev) == in_name);
#else
		V_COVER("inserted", x->parent == root);
#endif
	}
#elif defined(UNIT_CLONE)
	{
		node_t *cp = mpt_tree_clone(root);
		V_CHECK("clone: succeeds", cp != 0);
		if (cp) {
			const node_t *s, *d; int k = 0;
			V_CHECK("clone: well formed, same number of nodes", wf_tree2(cp) == before && cp->parent == 0 && cp->next == 0 && cp->prev == 0);
			V_CHECK("clone: same names at every depth, in the same order", nm(cp) == 'r');
			for (s = root->children, d = cp->children; s && k < 3; s = s->next, d = d ? d->next : 0, k++) {
				const node_t *sg, *dg; int j = 0;
				V_CHECK("clone: child present with the same name, own storage", d != 0 && d != s && nm(d) == nm(s));
				if (!d) break;
				for (sg = s->children, dg = d->children; sg && j < 2; sg = sg->next, dg = dg ? dg->next : 0, j++) {
					V_CHECK("clone: grandchild present with the same name, own storage", dg != 0 && dg != sg && nm(dg) == nm(sg));
					if (!dg) break;
				}
				V_CHECK("clone: no extra grandchildren", IMP(j < 2 || !sg, dg == 0 || sg != 0));
			}
			V_CHECK("clone: no extra children", d == 0);
			V_CHECK("clone: the source is untouched", wf_tree2(root) == before);
			mpt_node_destroy(cp);
		}
		V_COVER("tree cloned", cp != 0);
	}
#elif defined(UNIT_MOVE)
	{
		/* merge the root's children into a second tree (mpt_node_move): a source child whose name is not in the
		 * target moves over completely; for a namesake the source's grandchildren are merged / re-parented.  Afterwards
		 * both trees are well formed, no node is reachable from two places, nothing is lost, and releasing both trees
		 * releases every node exactly once. */
		node_t *dst = mk('R'), *d0 = mk('a'), *d1 = mk(in_name); size_t moved; int sa, da;
		mpt_gnode_insert(dst, 0, d0); mpt_gnode_insert(dst, 0, d1);          /* target: R -> { a, <name> }, no grandchildren */
		moved = mpt_node_move(&root->children, dst->children);
		sa = wf_tree2(root); da = wf_tree2(dst);
		V_CHECK("move: both trees stay well formed", sa >= 1 && da >= 3);
		V_CHECK("move: no node is lost or duplicated", sa + da == before + 3);
		V_CHECK("move: grandchildren handed to the namesake are no longer reachable from the source", IMP(in_nc >= 1 && in_ng >= 1 && d0->children == g[0], c[0]->children == 0));
		V_CHECK("move: re-parented grandchildren name their new parent", IMP(in_ng >= 1 && d0->children == g[0], g[0]->parent == d0 && IMP(in_ng >= 2, g[1]->parent == d0)));
		V_CHECK("move: children without namesake are moved over completely", IMP(in_nc >= 3, c[2]->parent == dst) && IMP(in_nc >= 2 && in_name != 'b', c[1]->parent == dst));
#if NG >= 1
		V_COVER("grandchildren re-parented", in_ng >= 1 && d0->children == g[0]);
#else
		V_COVER("child without namesake moved over", in_nc >= 1 && c[0]->parent == dst);
#endif
		V_CHECK("destroy: the target tree is released with everything below", mpt_node_destroy(dst) == 0);
		(void) moved;
	}
#elif defined(UNIT_UNLINK)
	{
		/* unlink any node of the tree, then destroy it separately */
		V_REQ(in_pos >= 0 && in_pos < in_nc + in_ng);
		x = in_pos < in_nc ? c[in_pos] : g[in_pos - in_nc];
		mpt_node_unlink(x);
		after = wf_tree2(root);
		V_CHECK("unlink: the rest of the tree stays well formed, the subtree goes with the node", after == before - 1 - (x == c[0] ? in_ng : 0));
		V_CHECK("unlink: the node is a root of its own now", !x->parent && !x->next && !x->prev && wf_tree2(x) == 1 + (x == c[0] ? in_ng : 0));
		V_CHECK("destroy: an unlinked node is released with its subtree", mpt_node_destroy(x) == 0);
		V_COVER("first child unlinked", x == c[0]);
	}
#endif
#ifndef UNIT_ADD
	/* release: everything is destroyed exactly once (leak check + free model); not in the insertion units, where the
	 * symbolic position makes the recursive release too expensive */
	V_CHECK("destroy: the root is released with everything below", mpt_node_destroy(root) == 0);
#endif
	V_CANARY();
}
#endif
