/* C12 units id2buf / buf2id / id.roundtrip: big-endian request id in a header of width 0..9 (symbolic),
 * top bit of the first byte reserved as reply marker.  Loops are bounded by the header width (W). */
#include "verif.h"
#include <sys/uio.h>
#include "message.h"
#ifndef WMAX
# define WMAX 9
#endif
size_t g_k;

/* big-endian image byte k of id in a field of n bytes (shift guarded, no UB in the spec) */
#define BE(id_, n_, k_)  ((uint8_t) ((((n_) - 1 - (k_)) >= 8) ? 0 : ((id_) >> (8 * ((n_) - 1 - (k_))))))
#define FITS(id_, n_)    ((n_) >= 9 ? 1 : ((n_) == 0 ? (id_) == 0 : (((id_) >> (8 * (n_) - 1)) == 0)))
/* what the pinned code accepts (it keeps the first byte zero): a lower bound, an implementation that accepts more still conforms */
#define SURELY_FITS(id_, n_) ((n_) >= 1 && ((n_) >= 9 ? 1 : (((id_) >> (8 * ((n_) - 1))) == 0)))

#define POST_mpt_message_id2buf(X, id_, b_, n_, r_) \
	X("id2buf.refuses-too-wide: a value that needs the marker bit or more bytes is refused", IMP(!FITS(id_, n_), (r_) < 0)) \
	X("id2buf.accepts", IMP(SURELY_FITS(id_, n_), (r_) >= 0)) \
	X("id2buf.image: accepted => big-endian image of the id", IMP((r_) >= 0 && g_k < (n_), ((const uint8_t *) (b_))[g_k] == BE(id_, n_, g_k))) \
	X("id2buf.marker-clear", IMP((r_) >= 0 && (n_) > 0, (((const uint8_t *) (b_))[0] & 0x80) == 0)) \
	X("id2buf.result-range", (r_) <= (int) WMAX)

int mpt_message_id2buf(uint64_t id, void *ptr, size_t len)
__CPROVER_requires(len <= WMAX)
__CPROVER_assigns(__CPROVER_object_upto(ptr, len))
POST_mpt_message_id2buf(C_ENSURES, id, ptr, len, __CPROVER_return_value)
;

uint64_t g_val;
#define B_(p_, n_, k_) ((uint64_t) ((k_) < (n_) ? ((const uint8_t *) (p_))[k_] : 0))
#define SH_(n_, k_)    (8 * ((n_) - 1 - (k_)))
#ifdef VERIF_NATIVE
# define be_value_spec(p_, n_) g_val
#else
/* closed form of the big-endian value for n <= 9 (the ninth, most significant byte must be 0 to be representable) */
# define be_value_spec(p_, n_) ( \
	((n_) > 0 && SH_(n_, 0) < 64 ? B_(p_, n_, 0) << SH_(n_, 0) : 0) | ((n_) > 1 && SH_(n_, 1) < 64 ? B_(p_, n_, 1) << SH_(n_, 1) : 0) | \
	((n_) > 2 ? B_(p_, n_, 2) << SH_(n_, 2) : 0) | ((n_) > 3 ? B_(p_, n_, 3) << SH_(n_, 3) : 0) | ((n_) > 4 ? B_(p_, n_, 4) << SH_(n_, 4) : 0) | \
	((n_) > 5 ? B_(p_, n_, 5) << SH_(n_, 5) : 0) | ((n_) > 6 ? B_(p_, n_, 6) << SH_(n_, 6) : 0) | ((n_) > 7 ? B_(p_, n_, 7) << SH_(n_, 7) : 0) | \
	((n_) > 8 ? B_(p_, n_, 8) << SH_(n_, 8) : 0))
#endif
/* numeric value of the big-endian bytes, written as a fixed unrolled sum (WMAX <= 9) */
#define BYTE_OR0(b_, n_, k_) ((uint64_t) ((k_) < (n_) ? ((const uint8_t *) (b_))[k_] : 0))
#define POST_mpt_message_buf2id(X, b_, n_, ip_, r_) \
	X("buf2id.accepts-8-significant-bytes", IMP((n_) <= 8, (r_) >= 0)) \
	X("buf2id.value: the stored id is the big-endian value of the bytes", IMP((r_) >= 0 && (ip_), *(ip_) == g_val)) \
	X("buf2id.refuses-overflow", IMP((n_) == 9 && ((const uint8_t *) (b_))[0] != 0, (r_) < 0))

int mpt_message_buf2id(const void *ptr, size_t len, uint64_t *iptr)
__CPROVER_requires(len <= WMAX && g_val == be_value_spec(ptr, len))
__CPROVER_assigns(iptr: *iptr)
POST_mpt_message_buf2id(C_ENSURES, ptr, len, iptr, __CPROVER_return_value)
;

static uint64_t be_value(const uint8_t *b, size_t n)
{
	uint64_t v = 0; size_t i;
	for (i = 0; i < n; i++) v = (v << 8) | b[i];
	return v;
}

void harness(void)
{
	IN(uint64_t, in_id); IN(size_t, in_len); IN(size_t, in_k);
	uint8_t *buf; int r;
	V_REQ(in_len <= WMAX);
	g_k = in_k;
#if defined(UNIT_ID2BUF)
	IN_BUF(buf, in_len ? in_len : 1);
	r = mpt_message_id2buf(in_id, buf, in_len);
	POST_mpt_message_id2buf(H_ENS, in_id, buf, in_len, r)
	V_COVER("accepted multi-byte id", r > 1);
	V_COVER("refused: marker bit", r < 0 && in_len > 0 && in_len < 9 && (in_id >> (8 * in_len - 1)) == 1);
	V_COVER("zero width", in_len == 0);
	V_COVER("width 9", in_len == 9 && r >= 0);
#elif defined(UNIT_BUF2ID)
	{
		uint8_t in_bytes[WMAX]; IN(int, in_has_ptr); uint64_t out = 0; uint64_t *ip = in_has_ptr ? &out : 0; V_FILL(in_bytes);
		size_t i;
		IN_BUF(buf, in_len ? in_len : 1);
		for (i = 0; i < in_len; i++) buf[i] = in_bytes[i];
		g_val = be_value(buf, in_len);
		r = mpt_message_buf2id(buf, in_len, ip);
		POST_mpt_message_buf2id(H_ENS, buf, in_len, ip, r)
		V_COVER("multi byte value", r > 1 && out > 0xffff);
		V_COVER("refused", r < 0);
	}
#else
	{
		/* the property's first sentence literally: written into a header of any permitted width and read back */
		uint64_t back = ~in_id;
		int r2;
		IN_BUF(buf, in_len ? in_len : 1);
		r = mpt_message_id2buf(in_id, buf, in_len);
		if (r >= 0) {
			r2 = mpt_message_buf2id(buf, in_len, &back);
			V_CHECK("roundtrip: an id that was written is read back unchanged", r2 >= 0 && back == in_id);
			V_CHECK("roundtrip: significant length agrees", r2 == r || (in_id == 0));
		}
		V_CHECK("roundtrip: a value that does not fit is refused", IMP(!FITS(in_id, in_len), r < 0));
		V_COVER("round trip of a 7 byte id", r >= 0 && in_id > 0xffffffffffffULL);
		V_COVER("refused", r < 0);
	}
#endif
	V_CANARY();
}
