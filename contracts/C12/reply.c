/* C12 units reply.*: the reply state machine of mptcore/event/reply_deferrable.c under contract.
 * abstract state: armed (data.len != 0), reference count, attached transport; the transport stub
 * counts what it is handed and may accept or reject. */
#include "verif.h"
#include <sys/uio.h>
#include <stdarg.h>
#include "mptcore/event/reply_deferrable.c"

#ifndef IDMAX
# define IDMAX 9
#endif

/* bytes of the id area: val[] is declared with 4 elements and extends into the tail of the allocation */
#define RDVAL(rd_, k_) (((const uint8_t *) (rd_) + MPT_offset(reply_data, val))[k_])

/* ---- stubs (specification side) ---- */
int mpt_log(MPT_INTERFACE(logger) *l, const char *fcn, int type, const char *fmt, ...) { (void) l; (void) fcn; (void) type; (void) fmt; return 0; }

int g_sends, g_accepts, g_send_ret;
uint16_t g_seen_len; uint8_t g_seen_first, g_seen_k; size_t g_k;
const void *g_seen_msg; void *g_seen_ptr;
static int h_send(void *ptr, const MPT_STRUCT(reply_data) *rd, const MPT_STRUCT(message) *msg)
{
	g_sends++;
	g_seen_ptr = ptr; g_seen_msg = msg;
	g_seen_len = rd->len; g_seen_first = RDVAL(rd, 0);
	if (g_k < rd->len) g_seen_k = RDVAL(rd, g_k);
	if (g_send_ret >= 0) g_accepts++;
	return g_send_ret;
}
static int g_token;

/* ---- harness ---- */
void harness(void)
{
	IN(uint16_t, in_max); IN(uint16_t, in_len); IN(uintptr_t, in_ref); IN(int, in_attached); IN(int, in_has_ptr);
	IN(int, in_send_ret); IN(int, in_has_msg); IN(size_t, in_k);
	uint8_t in_id[IDMAX]; V_FILL(in_id);
	MPT_INTERFACE(metatype) *mt; MPT_STRUCT(reply_context_defer) *ctx; MPT_STRUCT(reply_context) *rc = 0;
	MPT_STRUCT(message) msg = MPT_MESSAGE_INIT; const MPT_STRUCT(message) *mp = in_has_msg ? &msg : 0;
	uint8_t old_first = 0, old_k = 0; size_t i; int ret;

	V_REQ(in_max <= IDMAX && in_len <= in_max && in_ref >= 1);
	g_k = in_k; g_send_ret = in_send_ret; g_sends = g_accepts = 0;
	mt = mpt_reply_deferrable(in_max, in_attached ? h_send : 0, in_has_ptr ? &g_token : 0);
	V_REQ(mt != 0);
	ctx = MPT_baseaddr(reply_context_defer, mt, _mt);
	V_CHECK("create: capacity as requested, nothing armed, one reference", ctx->data._max == in_max && ctx->data.len == 0 && ctx->ref._val == 1);
	V_CHECK("create: converts to its reply context", mt->_vptr->convertable.convert((MPT_INTERFACE(convertable) *) mt, MPT_ENUM(TypeReplyPtr), &rc) >= 0 && rc == &ctx->_ctx);
	{ MPT_STRUCT(reply_data) *rd_ = 0; V_CHECK("create: converts to its own reply data (where a request id is armed), not to anything else of the context", mt->_vptr->convertable.convert((MPT_INTERFACE(convertable) *) mt, MPT_ENUM(TypeReplyDataPtr), &rd_) >= 0 && rd_ == &ctx->data); }
	/* arm with an arbitrary request id (marker bit clear: the id codec never produces it) */
	for (i = 0; i < in_len; i++) in_id[i] = in_id[i];
	V_REQ((in_id[0] & 0x80) == 0);
	ret = mpt_reply_set(&ctx->data, in_len, in_id);
	V_CHECK("arm: accepted within capacity", ret >= 0 && ctx->data.len == in_len);
	V_CHECK("arm: the whole request id is stored, at every width", IMP(ret >= 0 && in_k < in_len, RDVAL(&ctx->data, in_k) == in_id[in_k]));
	V_CHECK("arm: reply context itself undisturbed", ctx->ref._val == 1 && ctx->reply.send == (in_attached ? h_send : 0) && ctx->reply.ptr == (in_has_ptr ? (void *) &g_token : 0) && ctx->_ctx._vptr == rc->_vptr && ctx->data._max == in_max);
	ctx->ref._val = in_ref;   /* any number of further holders */
	if (in_len) { old_first = RDVAL(&ctx->data, 0); if (g_k < in_len) old_k = RDVAL(&ctx->data, g_k); }

#if defined(UNIT_REPLY)
	ret = rc->_vptr->reply(rc, mp);
	V_CHECK("reply: not armed => refused, transport not called, nothing changes", IMP(in_len == 0, ret == MPT_ERROR(BadArgument) && g_sends == 0 && ctx->data.len == 0));
	V_CHECK("reply: transport called at most once", g_sends <= 1);
	V_CHECK("reply: armed and attached => transport called exactly once", IMP(in_len && in_attached && in_has_ptr, g_sends == 1));
	V_CHECK("reply: not attached => transport not called", IMP(!in_attached || !in_has_ptr, g_sends == 0));
	V_CHECK("reply: carries the request's own id marked as reply", IMP(g_sends == 1, g_seen_len == in_len && g_seen_first == (old_first | 0x80) && IMP(g_k > 0 && g_k < in_len, g_seen_k == old_k) && g_seen_msg == mp && g_seen_ptr == &g_token));
	V_CHECK("reply: accepted => disarmed", IMP(g_sends == 1 && in_send_ret >= 0, ctx->data.len == 0 && ret == in_send_ret));
	V_CHECK("reply: rejected => still armed with the unmarked id (retry allowed)", IMP(g_sends == 1 && in_send_ret < 0, ret == in_send_ret && ctx->data.len == in_len && RDVAL(&ctx->data, 0) == old_first && IMP(g_k < in_len, RDVAL(&ctx->data, g_k) == old_k)));
	V_CHECK("reply: no transport target => still armed", IMP(in_len && in_attached && !in_has_ptr, ctx->data.len == in_len && RDVAL(&ctx->data, 0) == old_first));
	V_CHECK("reply: references untouched", ctx->ref._val == in_ref);
	/* second attempt after an accepted reply is refused without reaching the transport */
	if (g_accepts == 1) {
		int r2 = rc->_vptr->reply(rc, mp);
		V_CHECK("reply: further attempt refused, at most one accepted reply", r2 == MPT_ERROR(BadArgument) && g_sends == 1 && g_accepts == 1);
	}
	V_COVER("accepted", g_accepts == 1);
	V_COVER("rejected", g_sends == 1 && g_accepts == 0);
	free(ctx);
	V_COVER("unarmed", in_len == 0);
#elif defined(UNIT_DEFER)
	{
		MPT_INTERFACE(reply_context_detached) *def = rc->_vptr->defer(rc);
		struct replyDataDelayed *dd = (void *) def;
		V_CHECK("defer: not armed => no handle, nothing changes", IMP(in_len == 0, def == 0 && ctx->ref._val == in_ref));
		V_CHECK("defer: counter at maximum => no handle, still armed", IMP(in_len && in_ref == UINTPTR_MAX, def == 0 && ctx->data.len == in_len && ctx->ref._val == in_ref));
		V_CHECK("defer: armed => handle", IMP(in_len && in_ref < UINTPTR_MAX, def != 0));
		V_CHECK("defer: transport never called", g_sends == 0);
		if (def) {
			V_CHECK("defer: ownership of the id moves to the handle", ctx->data.len == 0 && dd->data.len == in_len && dd->data._max == in_max && RDVAL(&dd->data, 0) == old_first && IMP(g_k < in_len, RDVAL(&dd->data, g_k) == old_k));
			V_CHECK("defer: handle holds one reference", ctx->ref._val == in_ref + 1 && dd->base == ctx);
			/* answer through the deferred handle */
			ret = def->_vptr->reply(def, mp);
			V_CHECK("deferred: transport called at most once", g_sends <= 1);
			V_CHECK("deferred: attached => exactly once with the request id marked as reply", IMP(in_attached && in_has_ptr, g_sends == 1 && g_seen_len == in_len && g_seen_first == (old_first | 0x80) && IMP(g_k > 0 && g_k < in_len, g_seen_k == old_k) && g_seen_msg == mp));
			V_CHECK("deferred: rejected explicit answer => handle kept armed for retry", IMP(g_sends == 1 && in_send_ret < 0 && mp, ret == in_send_ret && dd->data.len == in_len && RDVAL(&dd->data, 0) == old_first && ctx->ref._val == in_ref + 1));
			V_CHECK("deferred: otherwise handle released, its reference dropped", IMP(!(g_sends == 1 && in_send_ret < 0 && mp), ctx->ref._val == in_ref));
			V_CHECK("deferred: finishing a handle leaves the still referenced context its transport", IMP(!(g_sends == 1 && in_send_ret < 0 && mp), ctx->reply.send == (in_attached ? h_send : 0) && ctx->reply.ptr == (in_has_ptr ? (void *) &g_token : 0)));
			/* whatever must still be alive by the contract is released here; the leak check then shows the rest was released by the code, the free model that nothing was released twice */
			if (g_sends == 1 && in_send_ret < 0 && mp) free(dd);
			V_CHECK("deferred: original context stays disarmed", ctx->data.len == 0);
			V_COVER("deferred reply accepted", g_accepts == 1);
			V_COVER("deferred reply rejected and kept", g_sends == 1 && in_send_ret < 0 && mp);
		}
		V_COVER("no handle", def == 0);
		free(ctx);
	}
#elif defined(UNIT_UNREF)
	mt->_vptr->unref(mt);
	V_CHECK("release: other holders => object stays, no reply yet", IMP(in_ref > 1, ctx->ref._val == in_ref - 1 && g_sends == 0 && ctx->data.len == in_len));
	V_CHECK("release: a holder that lets go detaches the transport (outstanding handles can no longer reach it)", IMP(in_ref > 1, ctx->reply.send == 0));
	V_CHECK("release: last holder of an armed, attached request => exactly one default reply", IMP(in_ref == 1 && in_len && in_attached && in_has_ptr, g_sends == 1 && g_seen_msg == 0 && g_seen_len == in_len && g_seen_first == (old_first | 0x80) && IMP(g_k > 0 && g_k < in_len, g_seen_k == old_k)));
	V_CHECK("release: nothing armed or no transport => no reply", IMP(in_len == 0 || !in_attached || !in_has_ptr, g_sends == 0));
	/* last holder => destroyed: checked by the leak check below (nothing may survive) and CBMC's free model (no double free) */
	if (in_ref > 1) free(ctx);
	V_COVER("default reply", g_sends == 1);
	V_COVER("shared", in_ref > 1);
#endif
	V_CANARY();
}
