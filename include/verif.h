/*
 * verif.h - macros shared by every proof unit.
 *
 * One harness file is compiled three ways:
 *   CBMC, mechanism dfcc     (-DVERIF_DFCC):   contracts on the redeclarations are
 *         enforced by goto-instrument; V_REQ assumes, V_ENS is a no-op (the
 *         contract's ensures clause is the obligation), V_CHECK asserts.
 *   CBMC, mechanism harness  (default):         V_REQ assumes, V_ENS/V_CHECK assert.
 *   native replay            (-DVERIF_NATIVE):  gcc + ASan/UBSan against the real
 *         /repo sources; IN() reads the verifier's counterexample values,
 *         V_REQ exits 77 when the input does not satisfy the precondition,
 *         V_ENS/V_CHECK print and make the program exit 1.
 */
#ifndef VERIF_H
#define VERIF_H

#include <stddef.h>
#include <stdint.h>
#include <stdlib.h>
#include <string.h>

#ifdef VERIF_NATIVE
# include <stdio.h>
# define __CPROVER_requires(...)
# define __CPROVER_ensures(...)
# define __CPROVER_assigns(...)
# define __CPROVER_frees(...)
extern int  v_failed;
extern void v_in(const char *name, void *ptr, size_t len);
extern void v_fill(const char *name, void *ptr, size_t len);
extern void v_fail(const char *what);
extern void v_pre_unsat(const char *what);
# define IN(type, name)        type name; v_in(#name, &name, sizeof(name))
# define IN_BUF(name, size)    do { size_t sz_ = (size); (name) = malloc(sz_ ? sz_ : 1); v_fill(#name, (name), sz_); } while (0)
# define V_REQ(cond)           do { if (!(cond)) v_pre_unsat(#cond); } while (0)
# define V_ENS(name, cond)     do { if (!(cond)) v_fail(name); } while (0)
# define V_CHECK(name, cond)   do { if (!(cond)) v_fail(name); } while (0)
# define V_COVER(name, cond)   do { } while (0)
# define V_CANARY()            do { } while (0)
# define V_WAS_FREED(p)        0
# define V_GHOST
/* harness arrays that the verifier leaves unconstrained: filled from the counterexample */
# define V_FILL(name)          v_in(#name, (name), sizeof(name))
/* verifier primitives used by harness stand-ins, native meaning */
extern void   v_obj(const void *base, size_t size);
extern int    v_same_object(const void *p, const void *q);
extern size_t v_pointer_offset(const void *p);
# define V_OBJ(x)              v_obj(&(x), sizeof(x))
/* a stand-in's free choice (already declared variable): the value the verifier chose */
# define V_ND(type, name)      v_in(#name, &(name), sizeof(name))
# define __CPROVER_assume(c)   do { if (!(c)) v_pre_unsat(#c); } while (0)
# define __CPROVER_assert(c, m) do { if (!(c)) v_fail(m); } while (0)
# define __CPROVER_havoc_object(p) do { } while (0)
# define __CPROVER_same_object(p, q) v_same_object((p), (q))
# define __CPROVER_POINTER_OFFSET(p) v_pointer_offset(p)
#else
/* whole-array nondeterministic assignment: makes the chosen bytes appear in the counterexample trace */
# define V_FILL(name)          { struct v_w_##name { __typeof__(name) a; } nd_w_##name; *(struct v_w_##name *) (void *) (name) = nd_w_##name; }
/* (plain blocks, not do-while: a do-while would take a loop number and shift the units' unwind sets) */
# define V_OBJ(x)              { }
# define V_ND(type, name)      { type nd_##name; (name) = nd_##name; }
/* errno as an assigns target (the macro errno is a call, which assigns clauses reject) */
extern __CPROVER_thread_local int __CPROVER_errno;
# define V_ERRNO               __CPROVER_errno
# define IN(type, name)        type name; { type nd_##name; name = nd_##name; }
# define IN_BUF(name, size)    do { (name) = malloc(size); __CPROVER_assume((name) != 0); } while (0)
# define V_REQ(cond)           __CPROVER_assume(cond)
# ifdef VERIF_DFCC
#  define V_ENS(name, cond)    do { } while (0)
# else
#  define V_ENS(name, cond)    __CPROVER_assert(cond, "ensures: " name)
# endif
# define V_CHECK(name, cond)   __CPROVER_assert(cond, "check: " name)
/* reachability probe: must FAIL (the engine inverts the verdict) */
# define V_COVER(name, cond)   __CPROVER_assert(!(cond), "cover: " name)
/* canary: must FAIL, shows that the pipeline can see a failing obligation behind the call */
# define V_CANARY()            __CPROVER_assert(0, "canary: reachable end of harness")
#endif
#define IMP(a, b) (!(a) || (b))
/* clause lists: #define POST_<function>(X, args...)  X("name", condition) ...
 * used once as the contract's ensures clauses and once as the harness' native/harness-mode checks;
 * the engine maps a failed <function>.postcondition.N to the N-th entry's name */
#define C_ENSURES(name, cond)  __CPROVER_ensures(cond)
#define C_REQUIRES(name, cond) __CPROVER_requires(cond)
#define H_ENS(name, cond)      V_ENS(name, cond);
#define H_REQ(name, cond)      V_REQ(cond);

#endif /* VERIF_H */
