/* native replay runtime: inputs come from the file named by VERIF_REPLAY_INPUTS
 * (lines "name=hexbytes", memory image little endian as CBMC reported it);
 * names not listed get a deterministic pattern derived from VERIF_SEED. */
#include <stdio.h>
#include <stdlib.h>
#include <string.h>
#include <stdint.h>
int v_failed = 0;
static uint64_t seed_(void) { const char *s = getenv("VERIF_SEED"); return s ? strtoull(s, 0, 0) : 0; }
static int lookup_(const char *name, unsigned char *dst, size_t len)
{
	const char *fn = getenv("VERIF_REPLAY_INPUTS");
	FILE *f; char *line = 0; size_t cap = 0; ssize_t n; int found = 0; size_t nl = strlen(name);
	if (!fn || !(f = fopen(fn, "r"))) return 0;
	while ((n = getline(&line, &cap, f)) > 0) {
		if (strncmp(line, name, nl) || line[nl] != '=') continue;
		const char *h = line + nl + 1; size_t i;
		memset(dst, 0, len);
		for (i = 0; i < len && h[2*i] && h[2*i+1] && h[2*i] != '\n'; i++) {
			unsigned v; if (sscanf(h + 2*i, "%2x", &v) != 1) break; dst[i] = (unsigned char) v;
		}
		found = 1; break;
	}
	free(line); fclose(f);
	return found;
}
static void pattern_(const char *name, unsigned char *p, size_t len)
{
	uint64_t x = seed_() * 0x9E3779B97F4A7C15ull + 0x1234567; const char *c; size_t i;
	for (c = name; *c; c++) x = (x ^ (unsigned char)*c) * 0x100000001B3ull;
	for (i = 0; i < len; i++) { x ^= x << 13; x ^= x >> 7; x ^= x << 17; p[i] = (unsigned char)(x >> 24); if (!p[i]) p[i] = (unsigned char)(1 + i % 255); }
}
void v_in(const char *name, void *ptr, size_t len)
{
	if (!lookup_(name, ptr, len)) { memset(ptr, 0, len); }
}
void v_fill(const char *name, void *ptr, size_t len)
{
	if (!lookup_(name, ptr, len)) pattern_(name, ptr, len);
}
/* objects the harness stand-ins tell apart with __CPROVER_same_object / __CPROVER_POINTER_OFFSET */
static struct { const char *base; size_t size; } objs_[16]; static int nobjs_;
void v_obj(const void *base, size_t size) { int i; for (i = 0; i < nobjs_; i++) if (objs_[i].base == (const char *) base) return; if (nobjs_ < 16) { objs_[nobjs_].base = base; objs_[nobjs_].size = size; nobjs_++; } }
static int find_(const void *p) { int i; for (i = 0; i < nobjs_; i++) if ((const char *) p >= objs_[i].base && (const char *) p < objs_[i].base + objs_[i].size) return i; return -1; }
int v_same_object(const void *p, const void *q) { int a = find_(p), b = find_(q); if (a < 0 || b < 0) return p == q; return a == b; }
size_t v_pointer_offset(const void *p) { int a = find_(p); return a < 0 ? 0 : (size_t) ((const char *) p - objs_[a].base); }
void v_fail(const char *what) { printf("REPLAY-FAILED: %s\n", what); v_failed = 1; }
void v_pre_unsat(const char *what) { printf("REPLAY-PRECONDITION-NOT-MET: %s\n", what); exit(77); }
extern void harness(void);
int main(void) { harness(); if (v_failed) return 1; printf("REPLAY-PASSED\n"); return 0; }
