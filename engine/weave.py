#!/usr/bin/env python3
"""
Insert-only weaver for loop contracts and ghost statements.

A *.weave sidecar names loops of functions in /repo by (file, function, ordinal,
fingerprint).  weave() produces an annotated copy of the file and proves, on
every run, that removing exactly the inserted spans gives back the original
bytes (identity check).  Nothing of the original text is changed or dropped.

Sidecar syntax (line oriented):

    @file mptcore/convert/encode_cobs.c
    @decl
    <text inserted after the last #include of the file>
    @loop <function> <ordinal> <fingerprint, whitespace-normalised loop head>
    @clauses
    <text inserted between the loop head's ')' and the loop body>
    @body
    <text inserted directly after the '{' that opens the loop body>
    @end
"""
import re
import sys


class WeaveError(Exception):
    pass


def parse_sidecar(path):
    """-> {file: {'decl': str, 'loops': [ {func, ordinal, fp, clauses, body} ]}}"""
    out = {}
    cur_file = None
    cur_loop = None
    mode = None
    for raw in open(path):
        line = raw.rstrip('\n')
        if line.startswith('@file '):
            cur_file = line[6:].strip()
            out.setdefault(cur_file, {'decl': '', 'loops': []})
            cur_loop = None
            mode = None
        elif line.startswith('@decl'):
            mode = 'decl'
        elif line.startswith('@loop '):
            m = re.match(r'@loop\s+(\S+)\s+(\d+)\s+(.*)$', line)
            if not m or cur_file is None:
                raise WeaveError('bad @loop line in %s: %s' % (path, line))
            cur_loop = {'func': m.group(1), 'ordinal': int(m.group(2)),
                        'fp': norm(m.group(3)), 'clauses': '', 'body': ''}
            out[cur_file]['loops'].append(cur_loop)
            mode = None
        elif line.startswith('@clauses'):
            mode = 'clauses'
        elif line.startswith('@body'):
            mode = 'body'
        elif line.startswith('@end'):
            mode = None
            cur_loop = None
        elif line.startswith('@#'):
            continue
        else:
            if mode == 'decl':
                out[cur_file]['decl'] += line + '\n'
            elif mode in ('clauses', 'body') and cur_loop is not None:
                cur_loop[mode] += line + '\n'
    return out


def norm(s):
    return re.sub(r'\s+', '', s)


def mask(src):
    """comments, string/char literals and preprocessor lines -> blanks (same length)"""
    out = list(src)
    i, n = 0, len(src)
    bol = True
    while i < n:
        c = src[i]
        if bol:
            j = i
            while j < n and src[j] in ' \t':
                j += 1
            if j < n and src[j] == '#':
                # preprocessor line incl. continuations
                k = j
                while k < n:
                    if src[k] == '\n' and not (k > 0 and src[k - 1] == '\\'):
                        break
                    k += 1
                for t in range(i, k):
                    if out[t] != '\n':
                        out[t] = ' '
                i = k
                continue
        bol = (c == '\n')
        if c == '/' and i + 1 < n and src[i + 1] == '*':
            k = src.find('*/', i + 2)
            k = n if k < 0 else k + 2
            for t in range(i, k):
                if out[t] != '\n':
                    out[t] = ' '
            i = k
            continue
        if c == '/' and i + 1 < n and src[i + 1] == '/':
            k = src.find('\n', i)
            k = n if k < 0 else k
            for t in range(i, k):
                out[t] = ' '
            i = k
            continue
        if c in '"\'':
            k = i + 1
            while k < n and src[k] != c:
                if src[k] == '\\':
                    k += 1
                k += 1
            for t in range(i + 1, min(k, n)):
                if out[t] != '\n':
                    out[t] = ' '
            i = k + 1
            continue
        i += 1
    return ''.join(out)


def match_close(m, i, op, cl):
    """m[i] == op; index of the matching cl"""
    depth = 0
    n = len(m)
    while i < n:
        if m[i] == op:
            depth += 1
        elif m[i] == cl:
            depth -= 1
            if depth == 0:
                return i
        i += 1
    raise WeaveError('unbalanced %s%s' % (op, cl))


def skip_ws(m, i):
    while i < len(m) and m[i] in ' \t\r\n':
        i += 1
    return i


def find_function(m, name):
    """-> (body_open, body_close) of the definition of `name` at brace depth 0"""
    depth = 0
    for mo in re.finditer(r'[{}]|\b' + re.escape(name) + r'\s*\(', m):
        t = mo.group(0)
        if t == '{':
            depth += 1
        elif t == '}':
            depth -= 1
        elif depth == 0:
            po = mo.end() - 1
            pc = match_close(m, po, '(', ')')
            j = skip_ws(m, pc + 1)
            if j < len(m) and m[j] == '{':
                return j, match_close(m, j, '{', '}')
    raise WeaveError('function %s not found' % name)


def loops_in(m, lo, hi):
    """loops inside m[lo:hi] in textual order:
       list of dict(kw, head_start, head_end(after ')'), fp, body_brace or None)"""
    res = []
    do_tails = set()
    for mo in re.finditer(r'\b(for|while|do)\b', m[lo:hi]):
        kw = mo.group(1)
        s = lo + mo.start()
        e = lo + mo.end()
        if kw == 'do':
            j = skip_ws(m, e)
            if m[j] != '{':
                raise WeaveError('do without block')
            bc = match_close(m, j, '{', '}')
            w = skip_ws(m, bc + 1)
            if m[w:w + 5] != 'while':
                raise WeaveError('do without while')
            po = skip_ws(m, w + 5)
            pc = match_close(m, po, '(', ')')
            do_tails.add(w)
            res.append({'kw': 'do', 'pos': s, 'clause_at': pc + 1, 'fp': norm(m[w:pc + 1]), 'body_brace': j})
            continue
        if kw == 'while' and s in do_tails:
            continue
        po = skip_ws(m, e)
        if po >= len(m) or m[po] != '(':
            continue
        pc = match_close(m, po, '(', ')')
        j = skip_ws(m, pc + 1)
        res.append({'kw': kw, 'pos': s, 'clause_at': pc + 1, 'fp': norm(m[s:pc + 1]),
                    'body_brace': j if (j < len(m) and m[j] == '{') else None})
    res.sort(key=lambda d: d['pos'])
    return res


def weave(src, spec, fname='?'):
    """src: original text; spec: {'decl':..., 'loops':[...]} -> (woven text, report)"""
    m = mask(src)
    inserts = []   # (position, text)
    report = []
    if spec.get('decl'):
        # after the last #include that precedes the first code token of the file
        first_code = re.search(r'\S', m)
        limit = first_code.start() if first_code else len(src)
        pos = 0
        for mo in re.finditer(r'^[ \t]*#[ \t]*include[^\n]*\n', src, re.M):
            if mo.end() <= limit:
                pos = mo.end()
        inserts.append((pos, spec['decl']))
        report.append('decl after the leading #include block (offset %d)' % pos)
    for lp in spec.get('loops', []):
        bo, bc = find_function(m, lp['func'])
        ls = loops_in(m, bo, bc)
        if lp['ordinal'] >= len(ls):
            raise WeaveError('%s: function %s has %d loops, ordinal %d requested'
                             % (fname, lp['func'], len(ls), lp['ordinal']))
        L = ls[lp['ordinal']]
        if L['fp'] != lp['fp']:
            raise WeaveError('%s: loop %s#%d fingerprint mismatch: found "%s", expected "%s"'
                             % (fname, lp['func'], lp['ordinal'], L['fp'], lp['fp']))
        if lp['clauses'].strip():
            inserts.append((L['clause_at'], '\n' + lp['clauses']))
        if lp['body'].strip():
            if L['body_brace'] is None:
                raise WeaveError('%s: loop %s#%d has no braced body for ghost statements'
                                 % (fname, lp['func'], lp['ordinal']))
            inserts.append((L['body_brace'] + 1, '\n' + lp['body']))
        report.append('%s#%d %s' % (lp['func'], lp['ordinal'], L['fp']))
    inserts.sort(key=lambda t: t[0])
    out = []
    spans = []
    last = 0
    cur = 0
    for pos, text in inserts:
        out.append(src[last:pos])
        cur += pos - last
        out.append(text)
        spans.append((cur, cur + len(text)))
        cur += len(text)
        last = pos
    out.append(src[last:])
    woven = ''.join(out)
    # identity check: delete exactly the inserted spans
    back = []
    p = 0
    for a, b in spans:
        back.append(woven[p:a])
        p = b
    back.append(woven[p:])
    if ''.join(back) != src:
        raise WeaveError('%s: identity check failed' % fname)
    return woven, report


def list_loops(src, func):
    m = mask(src)
    bo, bc = find_function(m, func)
    return [(i, l['fp']) for i, l in enumerate(loops_in(m, bo, bc))]


if __name__ == '__main__':
    # weave.py list <file.c> <function>
    if len(sys.argv) == 4 and sys.argv[1] == 'list':
        for i, fp in list_loops(open(sys.argv[2]).read(), sys.argv[3]):
            print(i, fp)
    else:
        print(__doc__)
