#!/usr/bin/env python3
"""
Proof-unit engine: contracts on the real /repo functions, discharged by
goto-instrument --dfcc + cbmc.  See /verif/DESIGN.md section 2.

usage: bin/check <property id> [--tier quick|thorough] [--unit NAME]... [--replay PATH] [--keep] [-v]
exit 0: every obligation of every unit discharged (known findings printed as KNOWN-FINDING)
exit 1: an obligation that is not a listed known finding failed  -> VIOLATION line
exit 2: inconclusive (tool error, timeout, weave mismatch, vacuity guard) -> never a VIOLATION
"""
import concurrent.futures
import json
import os
import re
import resource
import shutil
import subprocess
import sys
import tempfile
import time

sys.path.insert(0, os.path.dirname(os.path.abspath(__file__)))
import weave as weaver  # noqa: E402

VERIF = os.path.dirname(os.path.dirname(os.path.abspath(__file__)))
REPO = os.environ.get('VERIF_REPO', '/repo')
TMPROOT = os.environ.get('VERIF_TMP', '/var/tmp')
MEM_KB = int(os.environ.get('VERIF_MEM_GB', '10')) * 1024 * 1024

INCDIRS = ['mptcore', 'mptplot', 'mptio', 'mptloader', '.']
# measured: --pointer-primitive-check and --pointer-overflow-check raise false alarms inside the DFCC
# library / on the NULL+0 idiom; --unsigned-overflow-check contradicts the intended wrap of the refcount
BASE_CHECKS = ['--bounds-check', '--pointer-check', '--signed-overflow-check', '--div-by-zero-check',
               '--undefined-shift-check']
SCAFFOLD_CLASSES = ('loop_invariant_base', 'loop_invariant_step', 'loop_decreases', 'loop_assigns',
                    'loop_step_unwinding', 'unwind')


def log(*a):
    print(*a, file=sys.stderr, flush=True)


def limits():
    resource.setrlimit(resource.RLIMIT_AS, (MEM_KB * 1024, MEM_KB * 1024))
    try:
        resource.setrlimit(resource.RLIMIT_STACK, (resource.RLIM_INFINITY, resource.RLIM_INFINITY))
    except Exception:
        pass
    os.setsid()


def run(cmd, cwd, timeout, outfile=None):
    """-> (rc, stdout+stderr text, seconds); rc -9 on timeout"""
    t0 = time.time()
    try:
        if outfile:
            with open(outfile, 'w') as fo:
                p = subprocess.Popen(cmd, cwd=cwd, stdout=fo, stderr=subprocess.PIPE, preexec_fn=limits, text=True)
                try:
                    _, err = p.communicate(timeout=timeout)
                except subprocess.TimeoutExpired:
                    killpg(p)
                    return -9, 'timeout after %ds' % timeout, time.time() - t0
                return p.returncode, err or '', time.time() - t0
        p = subprocess.Popen(cmd, cwd=cwd, stdout=subprocess.PIPE, stderr=subprocess.STDOUT, preexec_fn=limits, text=True)
        try:
            out, _ = p.communicate(timeout=timeout)
        except subprocess.TimeoutExpired:
            killpg(p)
            return -9, 'timeout after %ds' % timeout, time.time() - t0
        return p.returncode, out or '', time.time() - t0
    except OSError as e:
        return -1, str(e), time.time() - t0


def killpg(p):
    try:
        os.killpg(os.getpgid(p.pid), 9)
    except Exception:
        pass
    try:
        p.kill()
    except Exception:
        pass
    try:
        p.communicate(timeout=5)
    except Exception:
        pass


class Inconclusive(Exception):
    pass


def load_units(pid):
    path = os.path.join(VERIF, 'contracts', pid, 'units.json')
    if not os.path.exists(path):
        raise Inconclusive('no units for %s' % pid)
    data = json.load(open(path))
    return data


def load_known():
    path = os.path.join(VERIF, 'known_findings.json')
    if os.path.exists(path):
        return json.load(open(path))
    return {'findings': [], 'fixed': []}


def tier_val(unit, key, tier, default=None):
    if tier == 'thorough' and (key + '_thorough') in unit:
        return unit[key + '_thorough']
    return unit.get(key, default)


def prepare_sources(pid, unit, scratch):
    """weave where asked; returns (source paths to compile, extra -I dirs, weave report)"""
    cdir = os.path.join(VERIF, 'contracts', pid)
    specs = {}
    for w in unit.get('weave', []):
        for f, s in weaver.parse_sidecar(os.path.join(cdir, w)).items():
            d = specs.setdefault(f, {'decl': '', 'loops': []})
            d['decl'] += s['decl']
            d['loops'] += s['loops']
    only = unit.get('weave_only')
    report = []
    woven_dirs = set()
    for rel, spec in specs.items():
        if only is not None:
            spec = dict(spec)
            spec['loops'] = [l for l in spec['loops'] if l['func'] in only]
        src = open(os.path.join(REPO, rel)).read()
        try:
            text, rep = weaver.weave(src, spec, rel)
        except weaver.WeaveError as e:
            raise Inconclusive('weave: %s' % e)
        dst = os.path.join(scratch, 'src', rel)
        os.makedirs(os.path.dirname(dst), exist_ok=True)
        open(dst, 'w').write(text)
        report += ['%s: %s' % (rel, r) for r in rep]
        woven_dirs.add(os.path.dirname(rel))
    # unmodified copies of the sibling .c files next to woven ones ("encode_cobs_zpe.c" #include's "encode_cobs.c")
    for d in woven_dirs:
        ddir = os.path.join(scratch, 'src', d)
        for fn in os.listdir(os.path.join(REPO, d)):
            if fn.endswith('.c') and not os.path.exists(os.path.join(ddir, fn)):
                shutil.copyfile(os.path.join(REPO, d, fn), os.path.join(ddir, fn))
    srcs = []
    subst = unit.get('subst', {})
    for rel, pairs in subst.items():
        if unit.get('kind') != 'B' and not unit.get('subst_reason'):
            raise Inconclusive('textual substitution needs kind B or a stated semantics-preserving reason (subst_reason)')
        text = open(os.path.join(REPO, rel)).read()
        for pair in pairs:
            a, b, cnt = pair[0], pair[1], pair[2]
            if len(pair) > 3 and pair[3] == 'optional' and text.count(a) == 0:
                continue    # the construct the substitution works around is not in the tree under test
            if text.count(a) != cnt:
                raise Inconclusive('substitution %r expected %d times in %s, found %d' % (a, cnt, rel, text.count(a)))
            text = text.replace(a, b)
        dst = os.path.join(scratch, 'src', rel)
        os.makedirs(os.path.dirname(dst), exist_ok=True)
        open(dst, 'w').write(text)
        report.append('%s: SUBSTITUTED %s' % (rel, pairs))
    for rel in unit.get('sources', []):
        if rel in subst:
            srcs.append(os.path.join(scratch, 'src', rel))
            continue
        if rel in specs:
            srcs.append(os.path.join(scratch, 'src', rel))
        elif os.path.dirname(rel) in woven_dirs:
            # file that #include's a woven sibling ("encode_cobs_zpe.c"): unmodified copies of it and of
            # the other .c files of that directory next to the woven one
            ddir = os.path.join(scratch, 'src', os.path.dirname(rel))
            os.makedirs(ddir, exist_ok=True)
            for fn in os.listdir(os.path.join(REPO, os.path.dirname(rel))):
                if fn.endswith('.c') and not os.path.exists(os.path.join(ddir, fn)):
                    shutil.copyfile(os.path.join(REPO, os.path.dirname(rel), fn), os.path.join(ddir, fn))
            srcs.append(os.path.join(ddir, os.path.basename(rel)))
        else:
            p = os.path.join(REPO, rel)
            if not os.path.exists(p):
                raise Inconclusive('source %s missing' % rel)
            srcs.append(p)
    incs = []
    if specs:
        incs.append(os.path.join(scratch, 'src'))
        for d in INCDIRS:
            incs.append(os.path.join(scratch, 'src', d))
    return srcs, incs, report


def include_flags(pid, extra):
    fl = ['-I' + os.path.join(VERIF, 'include'), '-I' + os.path.join(VERIF, 'contracts', pid),
          '-I' + os.path.join(VERIF, 'contracts', 'common')]
    for d in extra:
        fl.append('-I' + d)
    fl.append('-I' + REPO)
    for d in INCDIRS:
        fl.append('-I' + os.path.join(REPO, d))
    return fl


def parse_cbmc_json(path):
    try:
        data = json.load(open(path))
    except Exception as e:
        return None, 'unparsable cbmc output: %s' % e
    results = None
    msgs = []
    for e in data:
        if isinstance(e, dict):
            if 'result' in e:
                results = e['result']
            elif e.get('messageType') in ('ERROR',):
                msgs.append(e.get('messageText', ''))
            elif e.get('messageType') == 'WARNING' and 'ignoring' in e.get('messageText', ''):
                msgs.append('WARNING ' + e.get('messageText', ''))
    return results, '\n'.join(msgs)


def src_line(loc, cache):
    f = loc.get('file')
    ln = loc.get('line')
    if not f or not ln:
        return ''
    wd = loc.get('workingDirectory', '')
    p = f if os.path.isabs(f) else os.path.join(wd, f)
    if p not in cache:
        try:
            cache[p] = open(p, errors='replace').read().split('\n')
        except Exception:
            cache[p] = []
    i = int(ln) - 1
    return cache[p][i].strip() if 0 <= i < len(cache[p]) else ''


_clause_cache = {}


def clause_names(pid, func, exact=False):
    """names of the X("name", cond) entries of '#define POST_<func>(X, ...)' in the property's contract files"""
    key = (pid, func)
    if key in _clause_cache:
        return _clause_cache[key]
    names = []
    for d in (os.path.join(VERIF, 'contracts', pid), os.path.join(VERIF, 'contracts', 'common')):
        if not os.path.isdir(d):
            continue
        for fn in sorted(os.listdir(d)):
            if not fn.endswith(('.c', '.h')):
                continue
            text = open(os.path.join(d, fn), errors='replace').read()
            m = re.search(r'#\s*define\s+' + ('' if exact else 'POST_') + re.escape(func) + r'\s*\(', text)
            if not m:
                continue
            body = []
            for line in text[m.start():].split('\n'):
                body.append(line)
                if not line.rstrip().endswith('\\'):
                    break
            names = re.findall(r'\bX\(\s*"([^"]+)"', '\n'.join(body))
            break
        if names:
            break
    _clause_cache[key] = names
    return names


def bits_to_hex(bits):
    """CBMC binary (MSB first) -> little-endian memory image in hex"""
    if not bits or len(bits) % 8:
        return None
    by = [int(bits[i:i + 8], 2) for i in range(0, len(bits), 8)]
    by.reverse()
    return ''.join('%02x' % b for b in by)


def value_hex(v):
    if v is None:
        return None
    if 'binary' in v:
        return bits_to_hex(v['binary'])
    if 'elements' in v:
        parts = []
        for e in v['elements']:
            h = value_hex(e.get('value'))
            if h is None:
                return None
            parts.append(h)
        return ''.join(parts)
    if 'members' in v:
        parts = []
        for e in v['members']:
            h = value_hex(e.get('value'))
            if h is None:
                return None
            parts.append(h)
        return ''.join(parts)
    return None


def extract_inputs(trace):
    """named harness inputs of a counterexample: nd_<name> (IN) and first value of in_*/g_* arrays"""
    vals = {}
    shown = {}
    elems = {}
    for s in trace:
        if s.get('stepType') != 'assignment':
            continue
        lhs = s.get('lhs', '')
        v = s.get('value')
        if lhs.startswith('nd_'):
            name = lhs[3:]
            h = value_hex(v)
            if h is not None and name not in vals:
                vals[name] = h
                shown[name] = v.get('data')
        elif re.match(r'^(in_|g_)\w+$', lhs) and v and 'elements' in v and lhs not in vals:
            h = value_hex(v)
            if h is not None:
                vals[lhs] = h
                shown[lhs] = '[%d elements]' % len(v['elements'])
        else:
            # V_FILL(name): whole-array nondeterministic assignment, reported element by element
            me = re.match(r'^(in_\w+)\[(\d+)l?\]$', lhs)
            if me:
                h = value_hex(v)
                if h is not None:
                    elems.setdefault(me.group(1), {}).setdefault(int(me.group(2)), h)
    for name, el in elems.items():
        if name in vals or not el:
            continue
        w = len(next(iter(el.values())))
        vals[name] = ''.join(el.get(i, '0' * w) for i in range(max(el) + 1))
        shown[name] = '[' + ' '.join(el.get(i, '?') for i in range(max(el) + 1)) + ']'
    return vals, shown


_NATIVE_LIB = {}


def native_support_lib():
    """everything else of /repo's C libraries (current working tree), compiled once per run into a static archive:
       functions the unit's own sources call but do not define are taken from it at link time (the unit's
       sources and the harness stand-ins come first on the link line and win)"""
    if 'path' in _NATIVE_LIB:
        return _NATIVE_LIB['path']
    import atexit
    d = tempfile.mkdtemp(prefix='vnative.', dir=TMPROOT)
    atexit.register(lambda: shutil.rmtree(d, ignore_errors=True))
    files = []
    for sub in ('mptcore', 'mptplot', 'mptio'):
        for root, _dirs, fns in os.walk(os.path.join(REPO, sub)):
            files += [os.path.join(root, f) for f in fns if f.endswith('.c')]
    inc = ['-I' + os.path.join(REPO, x) for x in ('', 'mptcore', 'mptplot', 'mptio', 'mptloader')]
    procs = []
    objs = []
    for i, f in enumerate(sorted(files)):
        o = os.path.join(d, '%04d.o' % i)
        procs.append((o, subprocess.Popen(['gcc', '-c', '-O0', '-g', '-w'] + inc + [f, '-o', o],
                                          stdout=subprocess.DEVNULL, stderr=subprocess.DEVNULL)))
        if len(procs) >= 16:
            o0, p0 = procs.pop(0)
            if p0.wait() == 0:
                objs.append(o0)
    for o0, p0 in procs:
        if p0.wait() == 0:
            objs.append(o0)
    lib = os.path.join(d, 'libmptall.a')
    if objs:
        subprocess.run(['ar', 'rcs', lib] + objs, stdout=subprocess.DEVNULL, stderr=subprocess.DEVNULL)
    _NATIVE_LIB['path'] = lib if os.path.exists(lib) else None
    return _NATIVE_LIB['path']


def native_replay(pid, unit, inputs, outdir, tag, tier):
    """compile the same harness with gcc+sanitizers against the real sources and run it on the inputs.
       -> (status, text) status in reproduced | not-reproduced | precondition-not-met | build-failed"""
    cdir = os.path.join(VERIF, 'contracts', pid)
    scratch = tempfile.mkdtemp(prefix='vreplay.', dir=TMPROOT)
    try:
        inp = os.path.join(outdir, tag + '.inputs')
        with open(inp, 'w') as f:
            for k, v in sorted(inputs.items()):
                f.write('%s=%s\n' % (k, v))
        exe = os.path.join(scratch, 'replay')
        srcs = [os.path.join(REPO, s) for s in unit.get('sources', []) + unit.get('native_sources', [])]
        defs = ['-D' + d for d in (tier_val(unit, 'defines', tier, []) or [])]
        cmd = (['gcc', '-g', '-O0', '-w', '-fsanitize=address,undefined', '-fno-sanitize-recover=undefined',
                '-DVERIF_NATIVE', '-DMPT_VERIF'] + defs + include_flags(pid, []) +
               [os.path.join(cdir, unit['harness'])] + srcs + [os.path.join(VERIF, 'include', 'native_rt.c'), '-o', exe])
        lib = native_support_lib()
        if lib:
            cmd += [lib, '-Wl,--allow-multiple-definition']
        cmd += ['-lm', '-ldl']
        rc, out, _ = run(cmd, scratch, 300)
        if rc != 0:
            return 'build-failed', out[-3000:]
        best = None
        texts = []
        for seed in range(0, 4):
            env = dict(os.environ, VERIF_REPLAY_INPUTS=inp, VERIF_SEED=str(seed),
                       ASAN_OPTIONS='detect_leaks=0:abort_on_error=0', UBSAN_OPTIONS='print_stacktrace=1')
            try:
                p = subprocess.run([exe], cwd=scratch, env=env, stdout=subprocess.PIPE, stderr=subprocess.STDOUT,
                                   text=True, timeout=60)
                rc, out = p.returncode, p.stdout
            except subprocess.TimeoutExpired:
                rc, out = 124, 'native run timed out (60 s) - possible non-termination'
            texts.append('--- seed %d rc=%d\n%s' % (seed, rc, out[-2500:]))
            if rc == 77:
                best = best or 'precondition-not-met'
            elif rc == 0:
                best = 'not-reproduced' if best in (None, 'precondition-not-met') else best
            else:
                return 'reproduced', '\n'.join(texts)
        return best or 'not-reproduced', '\n'.join(texts)
    finally:
        shutil.rmtree(scratch, ignore_errors=True)


def run_unit(pid, unit, tier, keep=False, verbose=False):
    """-> dict(name, status pass|fail|inconclusive, ...)"""
    name = unit['name']
    res = {'name': name, 'kind': unit.get('kind', 'P'), 'mech': unit.get('mech', 'dfcc'), 'status': 'inconclusive',
           'obligations': 0, 'discharged': 0, 'failures': [], 'covers_expected': 0, 'covers_hit': 0,
           'canary_ok': None, 'solver_s': 0.0, 'cmds': [], 'reason': '', 'weave': [], 'bound': unit.get('bound', '')}
    scratch = tempfile.mkdtemp(prefix='vunit.%s.%s.' % (pid, name), dir=TMPROOT)
    cdir = os.path.join(VERIF, 'contracts', pid)
    t0 = time.time()
    try:
        srcs, incs, wrep = prepare_sources(pid, unit, scratch)
        res['weave'] = wrep
        mech = unit.get('mech', 'dfcc')
        defs = ['-DMPT_VERIF'] + ['-D' + d for d in (tier_val(unit, 'defines', tier, []) or [])]
        if mech == 'dfcc':
            defs.append('-DVERIF_DFCC')
        entry = unit.get('entry', 'harness')
        a = os.path.join(scratch, 'a.gb')
        cmd = ['goto-cc'] + defs + include_flags(pid, incs) + ['--function', entry, os.path.join(cdir, unit['harness'])] + srcs + [os.path.join(VERIF, x) for x in unit.get('cbmc_sources', [])] + ['-o', a]
        res['cmds'].append(' '.join(cmd))
        rc, out, _ = run(cmd, scratch, 300)
        if rc != 0:
            raise Inconclusive('goto-cc failed: ' + out[-2000:])
        cur = a
        pre = tier_val(unit, 'pre_unwindset', tier)
        if pre:
            nxt = os.path.join(scratch, 'a1.gb')
            cmd = ['goto-instrument', '--unwindset', ','.join(pre), '--unwinding-assertions', cur, nxt]
            res['cmds'].append(' '.join(cmd))
            rc, out, _ = run(cmd, scratch, 300)
            if rc != 0:
                raise Inconclusive('goto-instrument unwind failed: ' + out[-2000:])
            cur = nxt
        fpr = unit.get('fp_restrict')
        if fpr:
            # restrict local function pointer variables (traits->init/fini, handlers) to the harness stubs:
            # CBMC's type-based function pointer removal otherwise fans out over every function of a
            # compatible type (free, other v-table entries, ...) and recursion explodes.  Listed as assumption.
            rc, out, _ = run(['goto-instrument', '--show-goto-functions', cur], scratch, 300)
            syms = sorted(set(re.findall(r'DECL (\S+) : code\*', out)))
            nxt = os.path.join(scratch, 'a2.gb')
            cmd = ['goto-instrument']
            used = 0
            for sym in syms:
                last = sym.split('::')[-1]
                if last in fpr:
                    cmd += ['--restrict-function-pointer-by-name', '%s/%s' % (sym, ','.join(fpr[last]))]
                    used += 1
            if used:
                cmd += [cur, nxt]
                res['cmds'].append(' '.join(cmd))
                rc, out, _ = run(cmd, scratch, 300)
                if rc != 0:
                    raise Inconclusive('goto-instrument function pointer restriction failed: ' + out[-2000:])
                cur = nxt
        loops = bool(unit.get('apply_loops', bool(unit.get('weave'))))
        if mech == 'dfcc':
            nxt = os.path.join(scratch, 'b.gb')
            cmd = ['goto-instrument', '--dfcc', entry]
            for f in unit.get('enforce', []):
                cmd += ['--enforce-contract', f]
            for f in unit.get('replace', []):
                cmd += ['--replace-call-with-contract', f]
            if loops:
                cmd.append('--apply-loop-contracts')
            cmd += [cur, nxt]
            res['cmds'].append(' '.join(cmd))
            rc, out, _ = run(cmd, scratch, tier_val(unit, 'timeout', tier, 600))
            if rc != 0:
                raise Inconclusive('goto-instrument --dfcc failed: ' + out[-3000:])
            cur = nxt
        elif loops:
            nxt = os.path.join(scratch, 'b.gb')
            cmd = ['goto-instrument', '--apply-loop-contracts', cur, nxt]
            res['cmds'].append(' '.join(cmd))
            rc, out, _ = run(cmd, scratch, 300)
            if rc != 0:
                raise Inconclusive('goto-instrument loop contracts failed: ' + out[-3000:])
            cur = nxt
        flags = [f for f in BASE_CHECKS if f not in unit.get('no_flags', [])] + unit.get('flags', [])
        if not unit.get('malloc_may_fail'):
            flags.append('--no-malloc-may-fail')   # A-alloc: allocation succeeds unless the unit asks otherwise
        if not unit.get('no_slice'):
            flags.append('--slice-formula')
        sat = tier_val(unit, 'sat', tier, 'cadical')
        if sat == 'kissat':
            flags += ['--external-sat-solver', 'kissat']
        elif sat != 'minisat':
            flags += ['--sat-solver', sat]
        uw = tier_val(unit, 'unwind', tier)
        if uw:
            flags += ['--unwind', str(uw)]
        uws = tier_val(unit, 'unwindset', tier)
        if uws:
            flags += ['--unwindset', ','.join(uws)]
        if uw or uws:
            flags.append('--unwinding-assertions')
        ob = tier_val(unit, 'object_bits', tier)
        if ob:
            flags += ['--object-bits', str(ob)]
        outj = os.path.join(scratch, 'out.json')
        cmd = ['cbmc', cur] + flags + ['--json-ui']
        res['cmds'].append(' '.join(cmd))
        tmo = tier_val(unit, 'timeout', tier, 600)
        rc, err, secs = run(cmd, scratch, tmo, outfile=outj)
        res['solver_s'] = round(secs, 2)
        if rc == -9:
            raise Inconclusive('cbmc timeout after %ds' % tmo)
        results, msgs = parse_cbmc_json(outj)
        if results is None:
            tail = ''
            try:
                tail = open(outj).read()[-1500:]
            except Exception:
                pass
            raise Inconclusive('cbmc gave no result (rc=%s) %s %s %s' % (rc, msgs, err[-300:], re.sub(r'\s+', ' ', tail)[-300:]))
        if 'ignoring' in msgs:
            raise Inconclusive('cbmc ignored a quantifier: ' + msgs)
        cache = {}
        fails = []
        n_ob = n_ok = 0
        covers = cov_hit = 0
        undecided = 0
        canary = None
        for r in results:
            desc = r.get('description', '')
            st = r.get('status')
            if '.postcondition.' in (r.get('property') or '') and '/*@cover' in src_line(r.get('sourceLocation', {}), cache):
                # reachability probe written as a contract clause: __CPROVER_ensures(!(cond)) /*@cover: name*/ must FAIL
                covers += 1
                if st == 'FAILURE':
                    cov_hit += 1
                else:
                    res.setdefault('covers_missed', []).append(src_line(r.get('sourceLocation', {}), cache)[:120])
                continue
            if desc.startswith('cover: ') or desc.startswith('check: cover: '):
                covers += 1
                if st == 'FAILURE':
                    cov_hit += 1
                else:
                    res.setdefault('covers_missed', []).append(desc)
                continue
            if desc.startswith('canary: '):
                canary = (st == 'FAILURE')
                continue
            n_ob += 1
            if st == 'SUCCESS':
                n_ok += 1
            elif st != 'FAILURE':
                undecided += 1
            else:
                loc = r.get('sourceLocation', {})
                mm = re.match(r'^(\w+)\.postcondition\.(\d+)$', r.get('property') or '')
                if mm:
                    cn = clause_names(pid, mm.group(1)) or clause_names(pid, unit.get('post_macro', '-'), exact=True)
                    i = int(mm.group(2)) - 1
                    if 0 <= i < len(cn):
                        desc = 'ensures: %s (%s)' % (cn[i], desc)
                fails.append({'property': r.get('property'), 'description': desc, 'status': st,
                              'file': loc.get('file'), 'line': loc.get('line'), 'function': loc.get('function'),
                              'text': src_line(loc, cache),
                              'class': 'scaffolding' if any(c in (r.get('property') or '') for c in SCAFFOLD_CLASSES) else 'obligation'})
        res.update(obligations=n_ob, discharged=n_ok, covers_expected=covers, covers_hit=cov_hit, canary_ok=canary)
        res['samples'] = [{'obligation': r.get('property'), 'description': r.get('description'), 'status': r.get('status')}
                          for r in results[:: max(1, len(results) // 4)][:4]]
        nobody = [f['description'] for f in fails if '.no-body.' in (f.get('property') or '')]
        if nobody:
            raise Inconclusive('callee without body (nondeterministic result), add a model or a stub: %s' % nobody)
        res['undecided'] = undecided
        if undecided and not fails:
            raise Inconclusive('%d obligations left undecided by the solver (status neither SUCCESS nor FAILURE)' % undecided)
        if fails:
            res['status'] = 'fail'
            # traces for the first few failed obligations
            outt = os.path.join(scratch, 'trace.json')
            cmdt = ['cbmc', cur] + flags + ['--json-ui', '--trace']
            run(cmdt, scratch, tmo, outfile=outt)
            try:
                rr, _ = parse_cbmc_json(outt)
                want = {f['property']: f for f in fails[:6]}
                for r in rr or []:
                    f = want.get(r.get('property'))
                    if f is not None and r.get('trace'):
                        f['inputs'], f['inputs_shown'] = extract_inputs(r['trace'])
            except Exception as e:  # trace is a convenience only
                res['trace_error'] = str(e)
            res['failures'] = fails
        else:
            res['status'] = 'pass'
        # vacuity guards
        mo = unit.get('min_obligations', 1)
        if n_ob < mo:
            raise Inconclusive('vacuity: %d obligations < min_obligations %d' % (n_ob, mo))
        if res['status'] == 'pass':
            if covers != cov_hit:
                raise Inconclusive('vacuity: cover(s) not reachable: %s' % res.get('covers_missed'))
            if unit.get('min_covers') and covers < unit['min_covers']:
                raise Inconclusive('vacuity: %d covers < %d' % (covers, unit['min_covers']))
            if canary is False:
                raise Inconclusive('vacuity: canary passed (end of harness unreachable)')
            if canary is None and not unit.get('no_canary'):
                raise Inconclusive('vacuity: harness has no canary')
    except Inconclusive as e:
        res['status'] = 'inconclusive'
        res['reason'] = str(e)
    finally:
        res['wall_s'] = round(time.time() - t0, 2)
        if keep:
            res['scratch'] = scratch
        else:
            shutil.rmtree(scratch, ignore_errors=True)
    if verbose:
        log('[%s/%s] %s obligations=%d discharged=%d covers=%d/%d %.1fs %s' % (
            pid, name, res['status'], res['obligations'], res['discharged'], res['covers_hit'], res['covers_expected'],
            res['wall_s'], res['reason'][:600]))
    return res


def match_known(pid, unit_name, failure, known):
    hay = '%s | %s | %s' % (failure.get('property'), failure.get('description'), failure.get('text'))
    for k in known.get('findings', []):
        if k.get('property') != pid or k.get('unit') != unit_name:
            continue
        if re.search(k['match'], hay):
            return k
    return None


def scan_assumptions(pid):
    """mechanical scan of the contracts directory for everything that is assumed rather than proved"""
    found = []
    cdir = os.path.join(VERIF, 'contracts', pid)
    for fn in sorted(os.listdir(cdir)):
        if not fn.endswith(('.c', '.h')):
            continue
        for i, line in enumerate(open(os.path.join(cdir, fn), errors='replace')):
            m = re.search(r'/\*@assume:?\s*(.*?)\*/', line)
            if m:
                found.append('%s:%d %s' % (fn, i + 1, m.group(1).strip()))
    return found


def main(argv):
    import argparse
    ap = argparse.ArgumentParser()
    ap.add_argument('pid')
    ap.add_argument('--tier', default=os.environ.get('VERIF_TIER', 'quick'))
    ap.add_argument('--unit', action='append')
    ap.add_argument('--replay')
    ap.add_argument('--keep', action='store_true')
    ap.add_argument('-v', action='store_true')
    ap.add_argument('-j', type=int, default=int(os.environ.get('VERIF_JOBS', '0')))
    ap.add_argument('--no-evidence', action='store_true')
    a = ap.parse_args(argv)
    pid = a.pid
    tier = a.tier if a.tier in ('quick', 'thorough') else 'quick'
    seed = int(os.environ.get('VERIF_SEED', '0') or 0)
    t0 = time.time()
    try:
        spec = load_units(pid)
    except Inconclusive as e:
        log('INCONCLUSIVE:', e)
        return 2
    if a.replay:
        return replay_cmd(pid, spec, a.replay, tier)
    known = load_known()
    units = [u for u in spec['units'] if (u.get('tier', 'quick') == 'quick' or tier == 'thorough')]
    if a.unit:
        units = [u for u in units if u['name'] in a.unit]
    jobs = a.j or max(1, min(len(units), (os.cpu_count() or 4) // 2))
    results = []
    with concurrent.futures.ThreadPoolExecutor(max_workers=jobs) as ex:
        futs = {ex.submit(run_unit, pid, u, tier, a.keep, a.v): u for u in units}
        for fu in concurrent.futures.as_completed(futs):
            results.append((futs[fu], fu.result()))
    results.sort(key=lambda t: [u['name'] for u in units].index(t[0]['name']))

    outdir = os.path.join(os.environ.get('VERIF_OUT', os.path.join(VERIF, 'out')), 'replay', pid)
    if not a.unit:
        shutil.rmtree(outdir, ignore_errors=True)
    os.makedirs(outdir, exist_ok=True)
    for un in (a.unit or []):
        for fn in os.listdir(outdir):
            if fn.startswith(un + '.'):
                os.remove(os.path.join(outdir, fn))
    violations = []
    known_hits = []
    inconcl = []
    for u, r in results:
        if r['status'] == 'inconclusive':
            inconcl.append((u, r))
            continue
        for f in r['failures']:
            k = match_known(pid, u['name'], f, known)
            if k:
                known_hits.append((u, r, f, k))
                continue
            violations.append((u, r, f))
    # one KNOWN-FINDING line per listed finding that still fails
    seen = set()
    for u, r, f, k in known_hits:
        key = (k['unit'], k['match'])
        if key in seen:
            continue
        seen.add(key)
        print('KNOWN-FINDING: property=%s %s' % (pid, k['what']))
    vio_lines = []
    for u, r, f in violations:
        tag = '%s.%s' % (u['name'], re.sub(r'[^A-Za-z0-9_.-]', '_', f.get('property') or 'obligation'))
        status, text = ('no-trace', '')
        if f.get('inputs') is not None and not u.get('no_native'):
            status, text = native_replay(pid, u, f['inputs'], outdir, tag, tier)
        path = os.path.join(outdir, tag + '.json')
        json.dump({'property': pid, 'unit': u['name'], 'kind': r['kind'], 'mechanism': r['mech'],
                   'failed_obligation': f.get('property'), 'description': f.get('description'), 'class': f.get('class'),
                   'source': '%s:%s (%s)' % (f.get('file'), f.get('line'), f.get('function')), 'clause_text': f.get('text'),
                   'cbmc_status': f.get('status'), 'counterexample_inputs': f.get('inputs_shown'),
                   'inputs_memory_image_hex': f.get('inputs'), 'native_replay': status, 'native_output': text,
                   'commands': r['cmds']}, open(path, 'w'), indent=1)
        line = 'VIOLATION property=%s replay=%s' % (pid, path)
        if status != 'reproduced':
            line += ' no-failing-input-found'
        vio_lines.append(line)
    # the same obligation can fail in many ways; print at most a handful of lines
    for line in vio_lines[:12]:
        print(line)
    for u, r in inconcl:
        if not a.v:
            log('INCONCLUSIVE unit %s: %s' % (u['name'], r['reason'][:1500]))

    wall = time.time() - t0
    if not a.no_evidence and not a.unit:
        write_evidence(pid, spec, tier, seed, results, known_hits, violations, inconcl, wall)
    if violations:
        return 1
    if inconcl:
        return 2
    return 0


def replay_cmd(pid, spec, path, tier):
    d = json.load(open(path))
    unit = [u for u in spec['units'] if u['name'] == d['unit']]
    if not unit:
        log('unit not found')
        return 2
    outdir = os.path.dirname(os.path.abspath(path))
    st, text = native_replay(pid, unit[0], d.get('inputs_memory_image_hex') or {}, outdir, 're.' + d['unit'], tier)
    print(text)
    print('native replay:', st)
    if st == 'reproduced':
        print('VIOLATION property=%s replay=%s' % (pid, path))
        return 1
    return 0


def write_evidence(pid, spec, tier, seed, results, known_hits, violations, inconcl, wall):
    proved = [(u, r) for u, r in results if r['kind'] in ('P', 'W')]
    bounded = [(u, r) for u, r in results if r['kind'] == 'B']
    kf = {}
    for u, r, f, k in known_hits:
        kf[(u['name'], f.get('property'))] = k['what']
    ob = sum(r['obligations'] for _, r in proved)
    di = sum(r['discharged'] for _, r in proved)
    kf_proved = sum(1 for (un, _p) in kf if any(u['name'] == un and r['kind'] in ('P', 'W') for u, r in results))
    level = spec.get('level', 'proof')
    funcs = []
    for u, r in results:
        for fn in u.get('functions', []):
            funcs.append({'function': fn, 'unit': u['name'], 'kind': r['kind'], 'mechanism': r['mech'],
                          'loops': u.get('loops_note', ''), 'status': r['status']})
    samples = []
    for u, r in results:
        for s in r.get('samples', [])[:2]:
            samples.append(dict(s, unit=u['name']))
    cov = {
        'obligations': ob - kf_proved,
        'discharged': di,
        'known_finding_obligations': [{'unit': un, 'obligation': p, 'what': w} for (un, p), w in kf.items()],
        'checker_cmd': 'goto-cc ... ; goto-instrument --dfcc harness --enforce-contract F [--replace-call-with-contract G] '
                       '[--apply-loop-contracts] ; cbmc --slice-formula ' + ' '.join(BASE_CHECKS) + ' (exact lines per unit in units[].commands)',
        'trusted_base': spec.get('trusted_base', []) + [
            'cbmc 6.11.0 (goto-cc C front end, DFCC instrumentation, symbolic execution, built-in SAT back end)',
            'CBMC library models (malloc/free/realloc, memcpy/memmove/memset/memcmp, strlen/strcmp/...)',
            'LP64 little-endian x86-64 machine model', 'weaver engine/weave.py (insert-only, identity-checked every run)'],
        'functions_under_contract': funcs,
        'units': [{'name': u['name'], 'kind': r['kind'], 'mechanism': r['mech'], 'status': r['status'],
                   'obligations': r['obligations'], 'discharged': r['discharged'],
                   'covers_hit': '%d/%d' % (r['covers_hit'], r['covers_expected']), 'canary_failed_as_expected': r['canary_ok'],
                   'solver_s': r['solver_s'], 'wall_s': r['wall_s'], 'back_end': 'SAT: ' + (tier_val(u, 'sat', tier, 'cadical')),
                   'weave_identity_ok': bool(r['weave']) or None, 'woven_loops': r['weave'], 'bound': r['bound'],
                   'capacity': (tier_val(u, 'defines', tier, []) or []), 'commands': r['cmds'], 'reason': r['reason'][:500]}
                  for u, r in results],
        'bounded_units': [{'name': u['name'], 'bound': r['bound'], 'obligations': r['obligations'], 'discharged': r['discharged']}
                          for u, r in bounded],
        'bounded_obligations': sum(r['obligations'] for _, r in bounded),
        'bounded_discharged': sum(r['discharged'] for _, r in bounded),
        'samples': samples[:12],
        'not_decided': spec.get('not_decided', []),
        'exhaustive': False,
    }
    if level != 'proof':
        cov['explanation'] = spec.get('explanation', '')
    else:
        cov['explanation'] = spec.get('explanation', '')
    ev = {
        'property_id': pid, 'tier': tier, 'seed': seed, 'level': level, 'coverage': cov,
        'assumptions': spec.get('assumptions', []) + ['in-source: ' + s for s in scan_assumptions(pid)] +
                       ['unit %s: %s' % (u['name'], st) for u, _ in results for st in u.get('stubs', [])],
        'wall_s': round(wall, 2), 'violations': len(violations),
        'inconclusive_units': [u['name'] for u, _ in inconcl],
    }
    os.makedirs(os.path.join(VERIF, 'evidence'), exist_ok=True)
    tmp = os.path.join(VERIF, 'evidence', pid + '.json.tmp')
    json.dump(ev, open(tmp, 'w'), indent=1)
    os.replace(tmp, os.path.join(VERIF, 'evidence', pid + '.json'))


if __name__ == '__main__':
    sys.exit(main(sys.argv[1:]))
