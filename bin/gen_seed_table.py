#!/usr/bin/env python3
"""markdown table for DESIGN.md section 9.4 from seeded/*/meta.json, seeded/*/detected.json, seeded/descriptions.json"""
import json, os, re
root = '/verif/seeded'
desc = json.load(open(os.path.join(root, 'descriptions.json')))
print('| seed | change | files | detected by (quick tier) | replay |')
print('|---|---|---|---|---|')
for sd in sorted(d for d in os.listdir(root) if os.path.isdir(os.path.join(root, d))):
    files = sorted(set(re.findall(r'^\+\+\+ b/(\S+)', open(os.path.join(root, sd, 'patch.diff')).read(), re.M)))
    dp = os.path.join(root, sd, 'detected.json')
    det = json.load(open(dp)) if os.path.exists(dp) else None
    if det is None:
        by, rp = 'not run', ''
    elif not det['detected']:
        by, rp = '**not detected** (exit %d)' % det['check_exit'], ''
    else:
        units = []
        nat = 0
        for v in det['violated_obligations']:
            u = '.'.join(v.split(' (')[0].split('.')[:-3])
            if u not in units:
                units.append(u)
            if 'replayed natively' in v:
                nat += 1
        by = ', '.join('`%s`' % u for u in units[:4])
        rp = 'native' if nat else 'obligation only'
    print('| %s | %s | %s | %s | %s |' % (sd, desc.get(sd, ''), ', '.join(os.path.basename(f) for f in files), by, rp))
