#!/usr/bin/env python3
"""regenerate MANIFEST.json from contracts/*/units.json ('manifest' block) and not_applicable.json"""
import json, os, sys
V = os.path.dirname(os.path.dirname(os.path.abspath(__file__)))
props = [json.loads(l)['id'] for l in open(os.path.join(V, 'properties.jsonl'))]
na = json.load(open(os.path.join(V, 'not_applicable.json')))
checks, notapp, engines_serves = [], [], []
for pid in props:
    up = os.path.join(V, 'contracts', pid, 'units.json')
    spec = json.load(open(up)) if os.path.exists(up) else None
    if spec and spec.get('manifest') and spec['manifest'].get('claimed', True):
        m = spec['manifest']
        engines_serves.append(pid)
        checks.append({
            'property_id': pid,
            'quick_cmd': './bin/check %s --tier quick' % pid,
            'thorough_cmd': './bin/check %s --tier thorough' % pid,
            'evidence_file': 'evidence/%s.json' % pid,
            'replay_cmd_template': './bin/check %s --replay {path}' % pid,
            'engine': 'contracts-cbmc',
            'level_claimed': {'category': m.get('category', 'proof'), 'text': m['text'], 'design_ref': m.get('design_ref', 'DESIGN.md section 4 ' + pid)},
            'level_note': m['level_note'],
            'technique': m.get('technique', 'CBMC code contracts on the real C functions (goto-instrument --dfcc --enforce-contract, loop contracts), SAT back end'),
        })
    else:
        reason = na.get(pid) or (spec or {}).get('manifest', {}).get('unclaimed_reason') or \
            'not reached: no proof unit of this property passes yet on the unchanged tree (see DESIGN.md section 4 ' + pid + ' for the planned contracts); nothing is claimed'
        notapp.append({'property_id': pid, 'reason': reason})
man = {
    'version': 1,
    'setup_cmd': 'true',
    'hooks': {'guard': 'MPT_VERIF', 'enable': 'no source hooks: contracts live in /verif/contracts as redeclarations bound to the unmodified /repo definitions; -DMPT_VERIF is passed on goto-cc command lines only and no file in /repo refers to it',
              'baseline_off_cmd': 'cmake --build /repo/_build && ctest --test-dir /repo/_build -j8 --timeout 900',
              'source_commits': [], 'add_only': True},
    'engines': [{'name': 'contracts-cbmc', 'path': 'engine/vengine.py', 'serves_properties': engines_serves,
                 'kind_free_text': 'contract-based deductive verification: function/loop contracts on the real C sources, goto-instrument --dfcc + cbmc 6.11 (CaDiCaL), native replay of counterexamples with gcc+ASan/UBSan'}],
    'checks': checks,
    'notes': 'exit 2 of a check = inconclusive (tool trouble), never a VIOLATION. fix: commits in /repo are listed under fixed in known_findings.json.',
    'not_applicable': notapp,
}
json.dump(man, open(os.path.join(V, 'MANIFEST.json'), 'w'), indent=1)
print('claimed:', engines_serves)
